(* C11, second part -- environments, expectation values and reduced density matrices of tree states
   (renormalizer/tn/tree.py: TTNEnviron.build_children_environ_node / build_parent_environ_node,
   TTNS.expectation, calc_1site_rdm, calc_1dof_rdm, calc_2site_rdm, Tree.find_path, get_skip_pidx).

   An environment is a rank-3 tensor  e kb ko kk  (bra bond, operator bond, ket bond), the index order of
   get_child_indices / get_parent_indices.  The bra is always the conjugate of the ket (`bra` is not
   implemented in the library).  Operators may act on a subset of the DoFs of every node (partial operators:
   TTNO on a basis tree of the same topology with fewer DoFs per node; TTNO.dummy acts on none): a [ptree]
   node carries the mask [keep] over the state's physical indices; physical indices that are not kept are
   contracted directly between bra and ket (get_node_indices names them "up" on both).  No proofs here.   *)
From Coq Require Import List Arith Bool ZArith.
Import ListNotations.
From RV Require Import Base.CRing Base.BigSum Model.Chain Model.Ttns.

Section Env.
Variable R : CRing.
Notation "0" := (r0 R).
Notation "1" := (r1 R).
Infix "+" := (radd R).
Infix "*" := (rmul R).
Notation ttree := (ttree R).
Notation otens := (otens R).

Definition env3 := nat -> nat -> nat -> R.

Inductive ptree : Type := PNode (keep : list bool) (d : nat) (Ot : otens) (cs : list ptree).
Definition pdim (o : ptree) := match o with PNode _ d _ _ => d end.
Definition pch (o : ptree) := match o with PNode _ _ _ cs => cs end.
Fixpoint pshape (o : ptree) : shape := match o with PNode _ _ _ cs => Sh (map pshape cs) end.

(* the kept entries of a physical index tuple; a full tuple from kept entries and a donor for the rest *)
Fixpoint sel (keep : list bool) (l : list nat) : list nat :=
  match keep, l with
  | true :: k', x :: l' => x :: sel k' l'
  | false :: k', _ :: l' => sel k' l'
  | _, _ => []
  end.
Fixpoint merge (keep : list bool) (kept full : list nat) : list nat :=
  match keep, full with
  | true :: k', _ :: f' => hd O kept :: merge k' (tl kept) f'
  | false :: k', y :: f' => y :: merge k' kept f'
  | _, _ => []
  end.
Fixpoint eqskip (keep : list bool) (a b : list nat) : bool :=
  match keep, a, b with
  | true :: k', _ :: a', _ :: b' => eqskip k' a' b'
  | false :: k', x :: a', y :: b' => Nat.eqb x y && eqskip k' a' b'
  | _, _, _ => true
  end.

(* get_skip_pidx(snode, ttns, ttno): computed from the DoF lists of the STATE's basis node and of the OPERATOR's basis
   node at the same position (DoFs as labels); [keep_mask] is the mask a [ptree] node carries for that pair *)
Definition keep_mask (sdofs odofs : list nat) : list bool := map (fun d => existsb (Nat.eqb d) odofs) sdofs.
Fixpoint skip_from (i : nat) (mask : list bool) : list nat :=
  match mask with
  | [] => []
  | true :: m => skip_from (S i) m
  | false :: m => i :: skip_from (S i) m
  end.
Definition skip_pidx (sdofs odofs : list nat) : list nat := skip_from O (keep_mask sdofs odofs).

(* sum over one (bra, operator, ket) bond triple per child *)
Fixpoint esum (E : list (nat * nat * nat * env3)) (f : list nat -> list nat -> list nat -> R) : R :=
  match E with
  | [] => f [] [] []
  | (db, do, dk, e) :: E' =>
    sumn db (fun kb => sumn do (fun ko => sumn dk (fun kk =>
      e kb ko kk * esum E' (fun Kb Ko Kk => f (kb :: Kb) (ko :: Ko) (kk :: Kk)))))
  end.

(* conj(node) . operator node . node with all bonds fixed: up indices pu summed over the node's physical
   dimensions, down indices only over the kept DoFs, the others are shared with the bra *)
Definition nodeF (pd : list nat) (keep : list bool) (T : tens R) (Ot : otens) (pb po pk : nat) :
  list nat -> list nat -> list nat -> R :=
  fun Kb Ko Kk =>
    sumcfg pd (fun pu => sumcfg (sel keep pd) (fun pdk =>
      rcj R (T Kb pu pb) * Ot Ko (sel keep pu) pdk po * T Kk (merge keep pdk pu) pk)).

(* build_children_environ_node, bottom-up: the environment a sub-tree passes to its parent *)
Fixpoint cenv (t : ttree) (o : ptree) {struct t} : env3 :=
  match t, o with
  | TNode _ pd _ T cs, PNode keep _ Ot co =>
    fun pb po pk =>
      esum ((fix go (cs : list ttree) (co : list ptree) {struct cs} : list (nat * nat * nat * env3) :=
               match cs, co with
               | c :: cs', o1 :: co' => (tdim R c, pdim o1, tdim R c, cenv c o1) :: go cs' co'
               | _, _ => []
               end) cs co)
           (nodeF pd keep T Ot pb po pk)
  end.
Fixpoint zipenv (cs : list ttree) (co : list ptree) {struct cs} : list (nat * nat * nat * env3) :=
  match cs, co with
  | c :: cs', o1 :: co' => (tdim R c, pdim o1, tdim R c, cenv c o1) :: zipenv cs' co'
  | _, _ => []
  end.

(* TTNS.expectation: the dummy root on top contributes ones((1,1,1)) / ones((1,1,1,1)); the value is the
   only entry of the environment of the real root *)
Definition texpect (t : ttree) (o : ptree) : R := cenv t o O O O.

(* the operator tree a partial operator stands for: identity on the DoFs it does not keep *)
Fixpoint pfull (o : ptree) : otree R :=
  match o with
  | PNode keep d Ot cs =>
    ONode [] d (fun Ko pu pdn po => if eqskip keep pu pdn then Ot Ko (sel keep pu) (sel keep pdn) po else 0)
          (map pfull cs)
  end.
(* mask lengths and topology fit the state *)
Fixpoint compat (t : ttree) (o : ptree) {struct t} : Prop :=
  match t, o with
  | TNode _ pd _ _ cs, PNode keep _ _ co =>
    length keep = length pd /\
    (fix go (cs : list ttree) (co : list ptree) {struct cs} : Prop :=
       match cs, co with
       | [], [] => True
       | c :: cs', o1 :: co' => compat c o1 /\ go cs' co'
       | _, _ => False
       end) cs co
  end.
Fixpoint compats (cs : list ttree) (co : list ptree) {struct cs} : Prop :=
  match cs, co with
  | [], [] => True
  | c :: cs', o1 :: co' => compat c o1 /\ compats cs' co'
  | _, _ => False
  end.

(* the same with a full operator tree (every DoF kept): used for the dense statement *)
Definition nodeFfull (pd : list nat) (T : tens R) (Ot : otens) (pb po pk : nat) :
  list nat -> list nat -> list nat -> R :=
  fun Kb Ko Kk => sumcfg pd (fun pu => sumcfg pd (fun pdn => rcj R (T Kb pu pb) * Ot Ko pu pdn po * T Kk pdn pk)).
Fixpoint cenvF (t : ttree) (o : otree R) {struct t} : env3 :=
  match t, o with
  | TNode _ pd _ T cs, ONode _ _ Ot co =>
    fun pb po pk =>
      esum ((fix go (cs : list ttree) (co : list (otree R)) {struct cs} : list (nat * nat * nat * env3) :=
               match cs, co with
               | c :: cs', o1 :: co' => (tdim R c, odim R o1, tdim R c, cenvF c o1) :: go cs' co'
               | _, _ => []
               end) cs co)
           (nodeFfull pd T Ot pb po pk)
  end.
Fixpoint zipenvF (cs : list ttree) (co : list (otree R)) {struct cs} : list (nat * nat * nat * env3) :=
  match cs, co with
  | c :: cs', o1 :: co' => (tdim R c, odim R o1, tdim R c, cenvF c o1) :: zipenvF cs' co'
  | _, _ => []
  end.

Definition sum3' (d do : nat) (g : nat -> nat -> nat -> R) : R :=
  sumn d (fun pb => sumn do (fun po => sumn d (fun pk => g pb po pk))).

(* ------------------------------------------------------------------ parent environments *)
Definition delta3 (a b c : nat) : env3 := fun x y z => if Nat.eqb x a && Nat.eqb y b && Nat.eqb z c then 1 else 0.
Fixpoint replace_slot {A} (i : nat) (v : A) (l : list A) : list A :=
  match i, l with
  | O, _ :: l' => v :: l'
  | S i', x :: l' => x :: replace_slot i' v l'
  | _, [] => []
  end.
Definition slot_delta (x : nat * nat * nat * env3) (a b c : nat) : nat * nat * nat * env3 :=
  match x with (db, do, dk, _) => (db, do, dk, delta3 a b c) end.

(* build_parent_environ_node(snode, ichild): the other children's environments, the parent environment Pe of
   snode and conj(snode), onode, snode contracted; the bond triple towards child i stays open *)
Definition penv_child (t : ttree) (o : ptree) (i : nat) (Pe : env3) : env3 :=
  match t, o with
  | TNode _ pd d T cs, PNode keep do Ot co =>
    fun kb ko kk =>
      sumn d (fun pb => sumn do (fun po => sumn d (fun pk =>
        Pe pb po pk *
        esum (match nth_error (zipenv cs co) i with
              | Some x => replace_slot i (slot_delta x kb ko kk) (zipenv cs co)
              | None => zipenv cs co
              end)
             (nodeF pd keep T Ot pb po pk))))
  end.
(* the parent environment of the node reached by a path of child positions *)
Fixpoint penv_at (t : ttree) (o : ptree) (path : list nat) (Pe : env3) {struct path} : env3 :=
  match path with
  | [] => Pe
  | i :: path' =>
    match nth_error (tch R t) i, nth_error (pch o) i with
    | Some c, Some o1 => penv_at c o1 path' (penv_child t o i Pe)
    | _, _ => Pe
    end
  end.
Fixpoint psub (path : list nat) (o : ptree) : option ptree :=
  match path with
  | [] => Some o
  | i :: path' => match nth_error (pch o) i with Some c => psub path' c | None => None end
  end.
(* environ_parent of the real root under the dummy root: ones((1,1,1)) *)
Definition env_one : env3 := fun _ _ _ => 1.

(* calc_1site_rdm(node at path): children environments of the node, conj(node) with open "up" = bra indices,
   node with open "down" = ket indices, parent environment; operator = TTNO.dummy (no DoF kept) *)
Definition rdm1_site (t : ttree) (o : ptree) (path : list nat) (ket bra : list nat) : R :=
  match subtree R path t, psub path o with
  | Some (TNode _ pd d T cs), Some (PNode keep do Ot co) =>
    sumn d (fun pb => sumn do (fun po => sumn d (fun pk =>
      penv_at t o path env_one pb po pk *
      esum (zipenv cs co) (fun Kb Ko Kk => rcj R (T Kb bra pb) * T Kk ket pk))))
  | _, _ => 0
  end.
(* calc_1dof_rdm: oe_contract(rdm, indices, ((1,0),(1,1))): the other DoFs of the node are traced *)
Fixpoint put_nth (j v : nat) (l : list nat) : list nat :=
  match j, l with
  | O, _ :: l' => v :: l'
  | S j', x :: l' => x :: put_nth j' v l'
  | _, [] => []
  end.
Definition rdm1_dof (t : ttree) (o : ptree) (path : list nat) (j a b : nat) : R :=
  match subtree R path t with
  | Some u => sumcfg (put_nth j 1 (tpd R u)) (fun x => rdm1_site t o path (put_nth j a x) (put_nth j b x))   (* x_j = 0 is overwritten *)
  | None => 0
  end.

(* operator trees used to state what the RDMs are: TTNO.dummy (keeps no DoF, all bonds 1, tensors ones), and
   |bra><ket| on all DoFs of one node *)
Fixpoint pdummy_of (t : ttree) : ptree :=
  match t with TNode _ pd _ _ cs => PNode (repeat false (length pd)) 1 (fun _ _ _ _ => 1) (map pdummy_of cs) end.
Definition unit_tens (ket bra : list nat) : otens :=
  fun _ pu pdn _ => if list_eq_dec Nat.eq_dec pu bra then (if list_eq_dec Nat.eq_dec pdn ket then 1 else 0) else 0.
Fixpoint set_unit (path : list nat) (npd : nat) (ket bra : list nat) (o : ptree) {struct path} : ptree :=
  match path, o with
  | [], PNode _ d _ cs => PNode (repeat true npd) d (unit_tens ket bra) cs
  | i :: path', PNode keep d Ot cs => PNode keep d Ot (map_nth i (set_unit path' npd ket bra) cs)
  end.

(* replace the operator sub-tree at a path *)
Fixpoint set_sub (path : list nat) (new : ptree) (o : ptree) {struct path} : ptree :=
  match path, o with
  | [], _ => new
  | i :: path', PNode keep d Ot cs => PNode keep d Ot (map_nth i (set_sub path' new) cs)
  end.

(* ------------------------------------------------------------------ two-site reduced density matrix *)
(* calc_2site_rdm(idx1, idx2): the nodes on the path between the two sites enter with their tensors (end points
   with open physical indices, intermediate nodes with the physical indices contracted as for ttno_dummy), every
   path node with the environments of its children that are not on the path, and the top node of the path (the
   common ancestor) with its parent environment.
   r1, r2: position of site 1 / site 2 relative to the current sub-tree (None: not inside). *)
Definition rel_child (r : option (list nat)) (j : nat) : option (list nat) :=
  match r with
  | Some (j' :: q) => if Nat.eqb j j' then Some q else None
  | _ => None
  end.
Definition is_here (r : option (list nat)) : bool := match r with Some [] => true | _ => false end.
Definition is_in (r : option (list nat)) : bool := match r with Some _ => true | None => false end.

Section Rdm2.
Variables k1 b1 k2 b2 : list nat.
Fixpoint D2 (t : ttree) (o : ptree) (r1 r2 : option (list nat)) {struct t} : env3 :=
  match t, o with
  | TNode _ pd _ T cs, PNode keep _ Ot co =>
    fun pb po pk =>
      esum ((fix go (cs : list ttree) (co : list ptree) (j : nat) {struct cs} : list (nat * nat * nat * env3) :=
               match cs, co with
               | c :: cs', o1 :: co' =>
                 (tdim R c, pdim o1, tdim R c,
                  if is_in (rel_child r1 j) || is_in (rel_child r2 j)
                  then D2 c o1 (rel_child r1 j) (rel_child r2 j)          (* child on the path: its tensors *)
                  else cenv c o1)                                         (* otherwise its environment *)
                 :: go cs' co' (S j)
               | _, _ => []
               end) cs co O)
           (if is_here r1 then (fun Kb Ko Kk => rcj R (T Kb b1 pb) * T Kk k1 pk)
            else if is_here r2 then (fun Kb Ko Kk => rcj R (T Kb b2 pb) * T Kk k2 pk)
            else nodeF pd keep T Ot pb po pk)
  end.
Fixpoint zipD2 (r1 r2 : option (list nat)) (cs : list ttree) (co : list ptree) (j : nat) {struct cs} : list (nat * nat * nat * env3) :=
  match cs, co with
  | c :: cs', o1 :: co' =>
    (tdim R c, pdim o1, tdim R c,
     if is_in (rel_child r1 j) || is_in (rel_child r2 j) then D2 c o1 (rel_child r1 j) (rel_child r2 j) else cenv c o1)
    :: zipD2 r1 r2 cs' co' (S j)
  | _, _ => []
  end.

(* the operator tree with |b1><k1| and |b2><k2| put on the two sites *)
Fixpoint units (t : ttree) (o : ptree) (r1 r2 : option (list nat)) {struct t} : ptree :=
  match t, o with
  | TNode _ pd _ _ cs, PNode keep d Ot co =>
    PNode (if is_here r1 || is_here r2 then repeat true (length pd) else keep) d
          (if is_here r1 then unit_tens k1 b1 else if is_here r2 then unit_tens k2 b2 else Ot)
          ((fix go (cs : list ttree) (co : list ptree) (j : nat) {struct cs} : list ptree :=
              match cs, co with
              | c :: cs', o1 :: co' =>
                (if is_in (rel_child r1 j) || is_in (rel_child r2 j) then units c o1 (rel_child r1 j) (rel_child r2 j) else o1)
                :: go cs' co' (S j)
              | _, co' => co'
              end) cs co O)
  end.
Fixpoint zipunits (r1 r2 : option (list nat)) (cs : list ttree) (co : list ptree) (j : nat) {struct cs} : list ptree :=
  match cs, co with
  | c :: cs', o1 :: co' =>
    (if is_in (rel_child r1 j) || is_in (rel_child r2 j) then units c o1 (rel_child r1 j) (rel_child r2 j) else o1)
    :: zipunits r1 r2 cs' co' (S j)
  | _, co' => co'
  end.
(* the open physical indices are inside the physical dimensions of the two sites *)
Fixpoint okD (t : ttree) (r1 r2 : option (list nat)) {struct t} : Prop :=
  match t with
  | TNode _ pd _ _ cs =>
    (is_here r1 = true -> all_lt pd k1 = true /\ all_lt pd b1 = true) /\
    (is_here r2 = true -> all_lt pd k2 = true /\ all_lt pd b2 = true) /\
    (fix go (cs : list ttree) (j : nat) {struct cs} : Prop :=
       match cs with
       | [] => True
       | c :: cs' => okD c (rel_child r1 j) (rel_child r2 j) /\ go cs' (S j)
       end) cs O
  end.
Fixpoint okDs (r1 r2 : option (list nat)) (cs : list ttree) (j : nat) {struct cs} : Prop :=
  match cs with
  | [] => True
  | c :: cs' => okD c (rel_child r1 j) (rel_child r2 j) /\ okDs r1 r2 cs' (S j)
  end.
End Rdm2.

Fixpoint lcp (p1 p2 : list nat) : list nat :=
  match p1, p2 with
  | x :: p1', y :: p2' => if Nat.eqb x y then x :: lcp p1' p2' else []
  | _, _ => []
  end.

(* entry [ket1, ket2, bra1, bra2] of calc_2site_rdm for the nodes at positions p1, p2 *)
Definition rdm2_site (t : ttree) (o : ptree) (p1 p2 : list nat) (k1 k2 b1 b2 : list nat) : R :=
  let w := lcp p1 p2 in
  match subtree R w t, psub w o with
  | Some u, Some ou =>
    sum3' (tdim R u) (pdim ou) (fun pb po pk =>
      penv_at t o w env_one pb po pk *
      D2 k1 b1 k2 b2 u ou (Some (skipn (length w) p1)) (Some (skipn (length w) p2)) pb po pk)
  | _, _ => 0
  end.

(* ------------------------------------------------------------------ Tree.find_path on positions *)
(* a node is the list of child positions from the root; ancestors (incl. itself), nearest first *)
Fixpoint ancestors (p : list nat) (n : nat) : list (list nat) :=
  match n with
  | O => [firstn O p]
  | S n' => firstn (S n') p :: ancestors p n'
  end.
Definition anc (p : list nat) := ancestors p (length p).
Definition lnat_eqb (a b : list nat) : bool := if list_eq_dec Nat.eq_dec a b then true else false.
Fixpoint index_of (x : list nat) (l : list (list nat)) : nat :=
  match l with [] => O | y :: l' => if lnat_eqb x y then O else S (index_of x l') end.
(* common_ancestors = [a for a in ancestors1 if a in ancestors2]; common_ancestor = common_ancestors[0];
   path1 = ancestors1[:index(common)+1]; path2 = ancestors2[:index(common)]; return path1 + path2[::-1] *)
Definition find_path (p1 p2 : list nat) : list (list nat) :=
  match filter (fun x => existsb (lnat_eqb x) (anc p2)) (anc p1) with
  | [] => []
  | w :: _ => firstn (S (index_of w (anc p1))) (anc p1) ++ rev (firstn (index_of w (anc p2)) (anc p2))
  end.
Definition adjacent (x y : list nat) : Prop := (exists i, y = x ++ [i]) \/ (exists i, x = y ++ [i]).
Fixpoint is_chain (l : list (list nat)) : Prop :=
  match l with
  | x :: ((y :: _) as l') => adjacent x y /\ is_chain l'
  | _ => True
  end.

(* ------------------------------------------------------------------ exchange format *)
(* operator node from a nested array with axes [children, up_0, down_0, ..., parent] over the kept DoFs; a TTNO node
   that keeps no DoF of the state carries one dummy DoF: two axes of size 1 *)
Definition mkp (keep : list bool) (d : nat) (dummyaxes : bool) (a : arr R) (cs : list ptree) : ptree :=
  PNode keep d (fun ks pu pdn p => aget R a (ks ++ (if dummyaxes then [O; O] else interleave pu pdn) ++ [p])) cs.
Fixpoint idxs (dims : list nat) : list (list nat) :=
  match dims with
  | [] => [[]]
  | d :: ds => flat_map (fun i => map (cons i) (idxs ds)) (seq O d)
  end.
Definition rdm1_all (t : ttree) (path : list nat) (pd : list nat) : list R :=
  flat_map (fun ket => map (fun bra => rdm1_site t (pdummy_of t) path ket bra) (idxs pd)) (idxs pd).
Definition rdm1dof_all (t : ttree) (path : list nat) (j dj : nat) : list R :=
  flat_map (fun a => map (fun b => rdm1_dof t (pdummy_of t) path j a b) (seq O dj)) (seq O dj).
Definition rdm2_all (t : ttree) (p1 p2 : list nat) (pd1 pd2 : list nat) : list R :=
  flat_map (fun k1 => flat_map (fun k2 => flat_map (fun b1 => map (fun b2 =>
    rdm2_site t (pdummy_of t) p1 p2 k1 k2 b1 b2) (idxs pd2)) (idxs pd1)) (idxs pd2)) (idxs pd1).

End Env.

Arguments PNode {R} keep d Ot cs.

Definition gflat (l : list gi) : list Z := flat_map (fun x => [fst x; snd x]) l.
