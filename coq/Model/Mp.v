(* Model of the exact arithmetic of renormalizer/mps/{mp,mps,mpo,mpdm}.py on matrix-product chains, written
   as the code performs it (site by site).  Tensors are functions (Model/Chain.v); a chain is a list of
   (right bond dimension, tensor).  No proofs here (Proofs/MpProofs.v).

   code                                        model
   MatrixProduct.add, is_mps branch            add3   (first site dstack = concat on axis 2, interior block
                                                       diagonal, last site vstack = concat on axis 0; on a one-site
                                                       chain the vstack assignment overwrites the dstack one)
   MatrixProduct.add, is_mpo/is_mpdm branch    add4   (concatenate axis 3 / block diagonal / concatenate axis 0)
   MatrixProduct.scale                         scale_at3 / scale_at4 at site qnidx
   MatrixProduct.conj, Mps.conj                conj3 / conj4 (+ conjugated coeff)
   Mpo.conj_trans                              conj_trans4
   Mpo.apply (mp.is_mps)                       apply3:  einsum "apqb,cqd->acpbd", reshape (a*C+c, p, b*D+d)
   Mpo.apply (mp.is_mpo/mpdm), MpDm.apply      apply4:  einsum "apqb,cqrd->acprbd", reshape (a*C+c, p, r, b*D+d)
   MatrixProduct.dot                           dot3 / dot4 (transfer matrix e0[self bond, other bond], memoised)
   MatrixProduct.distance                      dist2_3 / dist2_4 (the quantity under the square root)
   Mps.add / Mps.distance prefactor folding    mps_fold3, mps_add3, mps_dist2_3                              *)
From Coq Require Import List Arith Bool ZArith.
Import ListNotations.
From RV Require Import Base.CRing Base.BigSum Model.Chain.

Section Mp.
Variable R : CRing.
Notation T3 := (T3 R).
Notation T4 := (T4 R).
Notation "x *r y" := (rmul R x y) (at level 40, left associativity).
Notation "x +r y" := (radd R x y) (at level 50, left associativity).
Notation "x -r y" := (rsub R x y) (at level 50, left associativity).

(* ------------------------------------------------------------------ add, rank 3 *)
Definition tadd_first3 (dr1 : nat) (t1 t2 : T3) : T3 :=
  fun l p r => if r <? dr1 then t1 l p r else t2 l p (r - dr1).
Definition tadd_mid3 (dl1 dr1 : nat) (t1 t2 : T3) : T3 :=
  fun l p r => if l <? dl1 then (if r <? dr1 then t1 l p r else r0 R)
               else (if r <? dr1 then r0 R else t2 (l - dl1) p (r - dr1)).
Definition tadd_last3 (dl1 : nat) (t1 t2 : T3) : T3 :=
  fun l p r => if l <? dl1 then t1 l p r else t2 (l - dl1) p r.

(* sites 1 .. n-1 of the sum; dl1 = left bond dimension of the first operand at the current site *)
Fixpoint add_rest3 (dl1 : nat) (a b : list (nat * T3)) : list (nat * T3) :=
  match a, b with
  | (da, ta) :: a', (db, tb) :: b' =>
      match a' with
      | [] => [(da, tadd_last3 dl1 ta tb)]
      | _ :: _ => ((da + db)%nat, tadd_mid3 dl1 da ta tb) :: add_rest3 da a' b'
      end
  | _, _ => []
  end.

Definition add3 (a b : list (nat * T3)) : list (nat * T3) :=
  match a, b with
  | (da, ta) :: a', (db, tb) :: b' =>
      match a' with
      | [] => [(da, tadd_last3 1 ta tb)]        (* site_num = 1: new_mps[-1] = vstack(...) overwrites new_mps[0] *)
      | _ :: _ => ((da + db)%nat, tadd_first3 da ta tb) :: add_rest3 da a' b'
      end
  | _, _ => []
  end.

(* ------------------------------------------------------------------ add, rank 4 *)
Definition tadd_first4 (dr1 : nat) (t1 t2 : T4) : T4 :=
  fun l pu pd r => if r <? dr1 then t1 l pu pd r else t2 l pu pd (r - dr1).
Definition tadd_mid4 (dl1 dr1 : nat) (t1 t2 : T4) : T4 :=
  fun l pu pd r => if l <? dl1 then (if r <? dr1 then t1 l pu pd r else r0 R)
                   else (if r <? dr1 then r0 R else t2 (l - dl1) pu pd (r - dr1)).
Definition tadd_last4 (dl1 : nat) (t1 t2 : T4) : T4 :=
  fun l pu pd r => if l <? dl1 then t1 l pu pd r else t2 (l - dl1) pu pd r.

Fixpoint add_rest4 (dl1 : nat) (a b : list (nat * T4)) : list (nat * T4) :=
  match a, b with
  | (da, ta) :: a', (db, tb) :: b' =>
      match a' with
      | [] => [(da, tadd_last4 dl1 ta tb)]
      | _ :: _ => ((da + db)%nat, tadd_mid4 dl1 da ta tb) :: add_rest4 da a' b'
      end
  | _, _ => []
  end.

Definition add4 (a b : list (nat * T4)) : list (nat * T4) :=
  match a, b with
  | (da, ta) :: a', (db, tb) :: b' =>
      match a' with
      | [] => [(da, tadd_last4 1 ta tb)]
      | _ :: _ => ((da + db)%nat, tadd_first4 da ta tb) :: add_rest4 da a' b'
      end
  | _, _ => []
  end.

(* ------------------------------------------------------------------ scale: new_mp[qnidx] = new_mp[qnidx] * val *)
Fixpoint scale_at3 (k : nat) (c : R) (ts : list (nat * T3)) {struct ts} : list (nat * T3) :=
  match ts with
  | [] => []
  | (d, t) :: ts' =>
      match k with
      | O => (d, fun l p r => t l p r *r c) :: ts'
      | S k' => (d, t) :: scale_at3 k' c ts'
      end
  end.
Fixpoint scale_at4 (k : nat) (c : R) (ts : list (nat * T4)) {struct ts} : list (nat * T4) :=
  match ts with
  | [] => []
  | (d, t) :: ts' =>
      match k with
      | O => (d, fun l pu pd r => t l pu pd r *r c) :: ts'
      | S k' => (d, t) :: scale_at4 k' c ts'
      end
  end.

(* ------------------------------------------------------------------ conj, conj_trans *)
Definition conj3 (ts : list (nat * T3)) : list (nat * T3) :=
  map (fun x => (fst x, fun l p r => rcj R (snd x l p r))) ts.
Definition conj4 (ts : list (nat * T4)) : list (nat * T4) :=
  map (fun x => (fst x, fun l pu pd r => rcj R (snd x l pu pd r))) ts.
(* moveaxis(self[i], (1, 2), (2, 1)).conj() *)
Definition conj_trans4 (ts : list (nat * T4)) : list (nat * T4) :=
  map (fun x => (fst x, fun l pu pd r => rcj R (snd x l pd pu r))) ts.

(* ------------------------------------------------------------------ apply
   dla / dra: left / right bond dimension of the SECOND operand (mp) at this site; the combined bond index is
   (index of self) * (dimension of mp) + (index of mp), as moveaxis + reshape produce it. *)
Definition tapply3 (dla dra dq : nat) (o : T4) (a : T3) : T3 :=
  fun L p Rr => sumn dq (fun q => o (L / dla) p q (Rr / dra) *r a (L mod dla) q (Rr mod dra)).
Definition tapply4 (dla dra dq : nat) (o : T4) (b : T4) : T4 :=
  fun L pu pd Rr => sumn dq (fun q => o (L / dla) pu q (Rr / dra) *r b (L mod dla) q pd (Rr mod dra)).

(* dqs: physical dimensions of the contracted index (mt_self.shape[2] == mt_other.shape[1]) *)
Fixpoint apply3 (dla : nat) (dqs : list nat) (O : list (nat * T4)) (a : list (nat * T3)) {struct O} : list (nat * T3) :=
  match O, a, dqs with
  | (dO, o) :: O', (da, ta) :: a', dq :: dqs' => ((dO * da)%nat, tapply3 dla da dq o ta) :: apply3 da dqs' O' a'
  | _, _, _ => []
  end.
Fixpoint apply4 (dla : nat) (dqs : list nat) (O : list (nat * T4)) (b : list (nat * T4)) {struct O} : list (nat * T4) :=
  match O, b, dqs with
  | (dO, o) :: O', (db, tb) :: b', dq :: dqs' => ((dO * db)%nat, tapply4 dla db dq o tb) :: apply4 db dqs' O' b'
  | _, _, _ => []
  end.

(* ------------------------------------------------------------------ dot (transfer matrices, memoised as nested lists) *)
Definition tab2 (n m : nat) (f : nat -> nat -> R) : list (list R) :=
  map (fun i => map (fun j => f i j) (seq 0 m)) (seq 0 n).
Definition of2 (x : list (list R)) : nat -> nat -> R := fun i j => nth j (nth i x []) (r0 R).

(* e r1 r2: r1 = bond of self (a), r2 = bond of other (b).
   e0 = tensordot(e0, mt2, 1); e0 = tensordot(e0, mt1, ([0, 1], [0, 1])).T *)
Fixpoint dot3_go (dps : list nat) (a b : list (nat * T3)) (da db : nat) (e : nat -> nat -> R) {struct a} : R :=
  match a, b, dps with
  | [], [], [] => e 0 0
  | (da', ta) :: a', (db', tb) :: b', dp :: dps' =>
      dot3_go dps' a' b' da' db'
        (of2 (tab2 da' db' (fun r1 r2 =>
           sumn da (fun i => sumn db (fun x => sumn dp (fun p => e i x *r tb x p r2 *r ta i p r1))))))
  | _, _, _ => r0 R
  end.
Definition dot3 (dps : list nat) (a b : list (nat * T3)) : R := dot3_go dps a b 1 1 (fun _ _ => r1 R).

Fixpoint dot4_go (dus dds : list nat) (a b : list (nat * T4)) (da db : nat) (e : nat -> nat -> R) {struct a} : R :=
  match a, b, dus, dds with
  | [], [], [], [] => e 0 0
  | (da', ta) :: a', (db', tb) :: b', du :: dus', dd :: dds' =>
      dot4_go dus' dds' a' b' da' db'
        (of2 (tab2 da' db' (fun r1 r2 =>
           sumn da (fun i => sumn db (fun x => sumn du (fun pu => sumn dd (fun pd =>
             e i x *r tb x pu pd r2 *r ta i pu pd r1)))))))
  | _, _, _, _ => r0 R
  end.
Definition dot4 (dus dds : list nat) (a b : list (nat * T4)) : R := dot4_go dus dds a b 1 1 (fun _ _ => r1 R).

(* distance: l1 + l2 - l1dotl2 - conj(l1dotl2) with l1 = conj(self).dot(self) etc.; `.real` and sqrt are float business *)
Definition dist2_3 (dps : list nat) (a b : list (nat * T3)) : R :=
  let l1 := dot3 dps (conj3 a) a in
  let l2 := dot3 dps (conj3 b) b in
  let l12 := dot3 dps (conj3 a) b in
  l1 +r l2 -r l12 -r rcj R l12.
Definition dist2_4 (dus dds : list nat) (a b : list (nat * T4)) : R :=
  let l1 := dot4 dus dds (conj4 a) a in
  let l2 := dot4 dus dds (conj4 b) b in
  let l12 := dot4 dus dds (conj4 a) b in
  l1 +r l2 -r l12 -r rcj R l12.

(* ------------------------------------------------------------------ Mps prefactor
   Mps.add / Mps.distance: `if not np.allclose(self.coeff, other.coeff)`: both operands are scaled IN PLACE by
   their coeff (at their own qnidx) and their coeff is set to 1.  [same] is the outcome of the allclose test
   (a witness supplied by the implementation; the theorems need  same = true -> ca = cb). *)
Definition mps_fold3 (k : nat) (c : R) (ts : list (nat * T3)) : list (nat * T3) * R := (scale_at3 k c ts, r1 R).
Definition mps_add3 (same : bool) (ka kb : nat) (ca cb : R) (a b : list (nat * T3)) : list (nat * T3) * R :=
  if same then (add3 a b, ca)
  else (add3 (scale_at3 ka ca a) (scale_at3 kb cb b), r1 R).
(* Mps.distance: fold as above, then  float(np.abs(self.coeff)) * super().distance(other)  -- squared here:
   |coeff|^2 * (l1 + l2 - l12 - conj l12), with coeff = 1 after folding *)
Definition mps_dist2_3 (same : bool) (dps : list nat) (ka kb : nat) (ca cb : R) (a b : list (nat * T3)) : R :=
  if same then (rcj R ca *r ca) *r dist2_3 dps a b
  else (rcj R (r1 R) *r r1 R) *r dist2_3 dps (scale_at3 ka ca a) (scale_at3 kb cb b).
(* rank-4 (MpDm inherits Mps.add) *)
Definition mps_add4 (same : bool) (ka kb : nat) (ca cb : R) (a b : list (nat * T4)) : list (nat * T4) * R :=
  if same then (add4 a b, ca)
  else (add4 (scale_at4 ka ca a) (scale_at4 kb cb b), r1 R).

(* ------------------------------------------------------------------ MpDm.from_mps: mo[:, i, i, :] = ms[:, i, :]  (zero elsewhere), same dtype,
   coeff and labels copied *)
Definition from_mps4 (ts : list (nat * T3)) : list (nat * T4) :=
  map (fun x => (fst x, fun l pu pd r => if Nat.eqb pu pd then snd x l pu r else r0 R)) ts.
Fixpoint eqbl (a b : list nat) : bool :=
  match a, b with
  | [], [] => true
  | x :: a', y :: b' => Nat.eqb x y && eqbl a' b'
  | _, _ => false
  end.

(* ------------------------------------------------------------------ rank 4 seen as a family of rank-3 chains:
   fix the lower physical index of site j to f j *)
Fixpoint slice4 (f : nat -> nat) (i : nat) (ts : list (nat * T4)) : list (nat * T3) :=
  match ts with
  | [] => []
  | (d, t) :: ts' => (d, fun l pu r => t l pu (f i) r) :: slice4 f (S i) ts'
  end.

End Mp.

Arguments add3 {R} a b.
Arguments add4 {R} a b.
Arguments add_rest3 {R} dl1 a b.
Arguments add_rest4 {R} dl1 a b.
Arguments scale_at3 {R} k c ts.
Arguments scale_at4 {R} k c ts.
Arguments conj3 {R} ts.
Arguments conj4 {R} ts.
Arguments conj_trans4 {R} ts.
Arguments apply3 {R} dla dqs O a.
Arguments apply4 {R} dla dqs O b.
Arguments dot3 {R} dps a b.
Arguments dot4 {R} dus dds a b.
Arguments dot3_go {R} dps a b da db e.
Arguments dot4_go {R} dus dds a b da db e.
Arguments dist2_3 {R} dps a b.
Arguments dist2_4 {R} dus dds a b.
Arguments mps_fold3 {R} k c ts.
Arguments mps_add3 {R} same ka kb ca cb a b.
Arguments mps_add4 {R} same ka kb ca cb a b.
Arguments mps_dist2_3 {R} same dps ka kb ca cb a b.
Arguments slice4 {R} f i ts.
Arguments from_mps4 {R} ts.
Arguments tab2 {R} n m f.
Arguments of2 {R} x.

(* ------------------------------------------------------------------ exchange format (Gaussian integers) used by the
   correspondence: chains as lists of (right dimension, nested lists); tabulation with explicit dimensions *)
Definition gi_eqb (x y : gi) : bool := (Z.eqb (fst x) (fst y) && Z.eqb (snd x) (snd y))%bool.

Definition lchain3 := list (nat * list (list (list gi))).
Definition lchain4 := list (nat * list (list (list (list gi)))).
Definition to_fun3 (c : lchain3) : list (nat * T3 GiRing) := map (fun x => (fst x, @of3 GiRing (snd x))) c.
Definition to_fun4 (c : lchain4) : list (nat * T4 GiRing) := map (fun x => (fst x, @of4 GiRing (snd x))) c.

(* tabulate a chain given its left dimension and the physical dimensions *)
Fixpoint to_list3 (dl : nat) (dps : list nat) (c : list (nat * T3 GiRing)) : lchain3 :=
  match c, dps with
  | (d, t) :: c', dp :: dps' => (d, @tab3 GiRing dl dp d t) :: to_list3 d dps' c'
  | _, _ => []
  end.
Fixpoint to_list4 (dl : nat) (dus dds : list nat) (c : list (nat * T4 GiRing)) : lchain4 :=
  match c, dus, dds with
  | (d, t) :: c', du :: dus', dd :: dds' => (d, @tab4 GiRing dl du dd d t) :: to_list4 d dus' dds' c'
  | _, _, _ => []
  end.

Fixpoint count_neq1 (x y : list gi) : Z :=
  match x, y with
  | [], [] => 0
  | a :: x', b :: y' => ((if gi_eqb a b then 0 else 1) + count_neq1 x' y')%Z
  | _, _ => 1000000
  end.
Fixpoint count_neq_gen {A} (f : A -> A -> Z) (x y : list A) : Z :=
  match x, y with
  | [], [] => 0
  | a :: x', b :: y' => (f a b + count_neq_gen f x' y')%Z
  | _, _ => 1000000
  end.
Definition count_neq3 : list (list (list gi)) -> list (list (list gi)) -> Z := count_neq_gen (count_neq_gen count_neq1).
Definition count_neq4 : list (list (list (list gi))) -> list (list (list (list gi))) -> Z := count_neq_gen count_neq3.
(* number of differing entries between two tabulated chains (a shape difference counts 1000000) *)
Definition diff_chain3 (x y : lchain3) : Z :=
  count_neq_gen (fun a b => ((if Nat.eqb (fst a) (fst b) then 0 else 1000000) + count_neq3 (snd a) (snd b))%Z) x y.
Definition diff_chain4 (x y : lchain4) : Z :=
  count_neq_gen (fun a b => ((if Nat.eqb (fst a) (fst b) then 0 else 1000000) + count_neq4 (snd a) (snd b))%Z) x y.

(* real data written as integers *)
Definition zr (x : Z) : gi := (x, 0%Z).
Definition zr3 (x : list (list (list Z))) : list (list (list gi)) := map (map (map zr)) x.
Definition zr4 (x : list (list (list (list Z)))) : list (list (list (list gi))) := map (map (map (map zr))) x.
