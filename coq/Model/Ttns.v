(* C11 -- tree tensor network states (renormalizer/tn/tree.py) over a commutative ring with involution.

   A node tensor is a function of (child bond indices, physical indices, parent bond index), the axis
   convention of TreeNodeTensor: [child_0 .. child_{c-1}, phys_0 .. phys_{k-1}, parent].  A node records
   a label (stands for str(dofs), the node identity used in the einsum index names), the physical
   dimensions, the dimension of its parent bond, its tensor, and its children in the listed order.  The
   dimension of the i-th child axis is the parent-bond dimension of the i-th child.  Dummy nodes
   (BasisDummy) have pd = [1] in the library; pd = [] is allowed too.

   Configurations are lists of per-node physical index lists in the tree's own pre-order (node_list).
   [tamp t s p] is the dense amplitude of configuration s with the parent bond of the root of t open at
   p (whole states: d = 1, p = 0): the sum over every child bond of tensor entry * product of the
   children's amplitudes, by structural recursion.  No proofs here (Proofs/TtnsProofs.v).               *)
From Coq Require Import List Arith Bool ZArith.
Import ListNotations.
From RV Require Import Base.CRing Base.BigSum Model.Chain.

Section Ttns.
Variable R : CRing.
Notation "0" := (r0 R).
Notation "1" := (r1 R).
Infix "+" := (radd R).
Infix "*" := (rmul R).

Definition tens := list nat -> list nat -> nat -> R.

Inductive ttree : Type :=
  TNode (lbl : nat) (pd : list nat) (d : nat) (T : tens) (cs : list ttree).

Definition tlbl (t : ttree) := match t with TNode l _ _ _ _ => l end.
Definition tpd (t : ttree) := match t with TNode _ pd _ _ _ => pd end.
Definition tdim (t : ttree) := match t with TNode _ _ d _ _ => d end.
Definition ttens (t : ttree) := match t with TNode _ _ _ T _ => T end.
Definition tch (t : ttree) := match t with TNode _ _ _ _ cs => cs end.

Fixpoint tsize (t : ttree) : nat :=
  match t with TNode _ _ _ _ cs => S (list_sum (map tsize cs)) end.

(* topology only *)
Inductive shape : Type := Sh (cs : list shape).
Fixpoint tshape (t : ttree) : shape := match t with TNode _ _ _ _ cs => Sh (map tshape cs) end.
Fixpoint ssize (s : shape) : nat := match s with Sh cs => S (list_sum (map ssize cs)) end.

(* pre-order lists: labels (node_list), physical dimensions *)
Fixpoint tlabels (t : ttree) : list nat := match t with TNode l _ _ _ cs => l :: flat_map tlabels cs end.
Fixpoint tpdims (t : ttree) : list (list nat) := match t with TNode _ pd _ _ cs => pd :: flat_map tpdims cs end.

(* sum over the bond indices k_1..k_n of  prod_i a_i(k_i) * f [k_1;..;k_n] *)
Fixpoint csum (A : list (nat * (nat -> R))) (f : list nat -> R) : R :=
  match A with
  | [] => f []
  | (d, a) :: A' => sumn d (fun k => a k * csum A' (fun ks => f (k :: ks)))
  end.

Fixpoint tamp (t : ttree) (s : list (list nat)) (p : nat) {struct t} : R :=
  match t with
  | TNode _ _ _ T cs =>
    match s with
    | [] => 0
    | ph :: rest =>
      csum ((fix ca (cs : list ttree) (rest : list (list nat)) {struct cs} : list (nat * (nat -> R)) :=
               match cs with
               | [] => []
               | c :: cs' => (tdim c, tamp c (firstn (tsize c) rest)) :: ca cs' (skipn (tsize c) rest)
               end) cs rest)
           (fun ks => T ks ph p)
    end
  end.

(* (bond dimension, amplitude) of every child, each with its chunk of the configuration *)
Fixpoint camps (cs : list ttree) (rest : list (list nat)) : list (nat * (nat -> R)) :=
  match cs with
  | [] => []
  | c :: cs' => (tdim c, tamp c (firstn (tsize c) rest)) :: camps cs' (skipn (tsize c) rest)
  end.

(* the same amplitude for a configuration given per label (i.e. per DoF, independent of any node order) *)
Fixpoint tampL (t : ttree) (sg : nat -> list nat) (p : nat) {struct t} : R :=
  match t with
  | TNode l _ _ T cs => csum (map (fun c => (tdim c, tampL c sg)) cs) (fun ks => T ks (sg l) p)
  end.
Definition cfg_of (t : ttree) (sg : nat -> list nat) : list (list nat) := map sg (tlabels t).

(* ------------------------------------------------------------------ TTNS.add *)
Fixpoint all_lt (ds ks : list nat) : bool :=
  match ds, ks with
  | [], [] => true
  | d :: ds', k :: ks' => (k <? d) && all_lt ds' ks'
  | _, _ => false
  end.
Fixpoint all_ge (ds ks : list nat) : bool :=
  match ds, ks with
  | [], [] => true
  | d :: ds', k :: ks' => (d <=? k) && all_ge ds' ks'
  | _, _ => false
  end.
Fixpoint shiftl (ds ks : list nat) : list nat :=
  match ds, ks with
  | d :: ds', k :: ks' => (k - d) :: shiftl ds' ks'
  | _, _ => []
  end.

(* new.tensor = zeros; new.tensor[indices1] = node1.tensor; new.tensor[indices2] += node2.tensor.
   Virtual axes are stacked (block 1 = [0,d1), block 2 = [d1,d1+d2)), physical axes and the root's parent
   axis are shared; where a node has no stacked axis at all (the root of a one-node tree) both slices are
   the whole tensor and the entries add. *)
Definition add_tens (root : bool) (das : list nat) (da : nat) (Ta Tb : tens) : tens :=
  fun ks ph p =>
    (if all_lt das ks && (root || (p <? da)) then Ta ks ph p else 0)
    + (if all_ge das ks && (root || (da <=? p)) then Tb (shiftl das ks) ph (if root then p else p - da) else 0).

Fixpoint tadd_gen (root : bool) (a b : ttree) {struct a} : ttree :=
  match a, b with
  | TNode l pd da Ta ca, TNode _ _ db Tb cb =>
    TNode l pd (if root then da else da + db) (add_tens root (map tdim ca) da Ta Tb)
      ((fix go (ca cb : list ttree) {struct ca} : list ttree :=
          match ca, cb with
          | x :: ca', y :: cb' => tadd_gen false x y :: go ca' cb'
          | _, _ => []
          end) ca cb)
  end.
Fixpoint zipadd (ca cb : list ttree) : list ttree :=
  match ca, cb with
  | x :: ca', y :: cb' => tadd_gen false x y :: zipadd ca' cb'
  | _, _ => []
  end.
Definition tadd := tadd_gen true.

(* ------------------------------------------------------------------ TTNS.scale: root tensor *= c *)
Definition tscale (c : R) (t : ttree) : ttree :=
  match t with TNode l pd d T cs => TNode l pd d (fun ks ph p => c * T ks ph p) cs end.

(* TTNS.add with prefactors (coeff).  A state is (coeff, tree).  Equal prefactors (python `self.coeff != other.coeff`
   false): the sum keeps the common prefactor and the tensors are not scaled.  Different prefactors: factor1, factor2 =
   self.coeff, other.coeff are folded into the root tensor (new[indices1] = factor1 * node1.tensor;
   new[indices2] += factor2 * node2.tensor) and the sum has coeff 1.  [ceq] is the equality test of the prefactors. *)
Definition tadd_coeff (ca cb : R) (a b : ttree) : ttree := tadd (tscale ca a) (tscale cb b).
Definition tadd_state (ceq : R -> R -> bool) (ca cb : R) (a b : ttree) : R * ttree :=
  if ceq ca cb then (ca, tadd a b) else (1, tadd_coeff ca cb a b).

(* ------------------------------------------------------------------ tree operators, TTNO.apply *)
(* operator node tensor: child bonds, up (output) physical indices, down (input) physical indices, parent *)
Definition otens := list nat -> list nat -> list nat -> nat -> R.
Inductive otree : Type := ONode (pd : list nat) (d : nat) (Ot : otens) (cs : list otree).
Definition odim (o : otree) := match o with ONode _ d _ _ => d end.
Fixpoint osize (o : otree) : nat := match o with ONode _ _ _ cs => S (list_sum (map osize cs)) end.
Fixpoint oshape (o : otree) : shape := match o with ONode _ _ _ cs => Sh (map oshape cs) end.

Fixpoint oamp (o : otree) (su sd : list (list nat)) (p : nat) {struct o} : R :=
  match o with
  | ONode _ _ Ot cs =>
    match su, sd with
    | pu :: ru, pdn :: rd =>
      csum ((fix ca (cs : list otree) (ru rd : list (list nat)) {struct cs} : list (nat * (nat -> R)) :=
               match cs with
               | [] => []
               | c :: cs' => (odim c, oamp c (firstn (osize c) ru) (firstn (osize c) rd))
                             :: ca cs' (skipn (osize c) ru) (skipn (osize c) rd)
               end) cs ru rd)
           (fun ks => Ot ks pu pdn p)
    | _, _ => 0
    end
  end.
Fixpoint ocamps (cs : list otree) (ru rd : list (list nat)) : list (nat * (nat -> R)) :=
  match cs with
  | [] => []
  | c :: cs' => (odim c, oamp c (firstn (osize c) ru) (firstn (osize c) rd))
                :: ocamps cs' (skipn (osize c) ru) (skipn (osize c) rd)
  end.

(* sum over all configurations: one list of physical indices per node, pre-order *)
Fixpoint sumcfgs (dd : list (list nat)) (F : list (list nat) -> R) : R :=
  match dd with
  | [] => F []
  | d :: dd' => sumcfg d (fun ph => sumcfgs dd' (fun s => F (ph :: s)))
  end.

(* combined bond index produced by  einsum(..., [.., s_i, o_i, ..]).reshape(s_i * o_i):  K = k_s * d_o + k_o *)
Fixpoint divl (Ks dos : list nat) : list nat :=
  match Ks, dos with K :: Ks', d :: dos' => (K / d) :: divl Ks' dos' | _, _ => [] end.
Fixpoint modl (Ks dos : list nat) : list nat :=
  match Ks, dos with K :: Ks', d :: dos' => (K mod d) :: modl Ks' dos' | _, _ => [] end.

Definition apply_tens (pd dos : list nat) (do : nat) (T : tens) (Ot : otens) : tens :=
  fun Ks pu P => sumcfg pd (fun pdn => Ot (modl Ks dos) pu pdn (P mod do) * T (divl Ks dos) pdn (P / do)).

Fixpoint tapply (o : otree) (t : ttree) {struct t} : ttree :=
  match t, o with
  | TNode l pd ds T cs, ONode _ do Ot co =>
    TNode l pd (ds * do) (apply_tens pd (map odim co) do T Ot)
      ((fix go (cs : list ttree) (co : list otree) {struct cs} : list ttree :=
          match cs, co with
          | c :: cs', o1 :: co' => tapply o1 c :: go cs' co'
          | _, _ => []
          end) cs co)
  end.
Fixpoint zipapply (co : list otree) (cs : list ttree) {struct cs} : list ttree :=
  match cs, co with
  | c :: cs', o1 :: co' => tapply o1 c :: zipapply co' cs'
  | _, _ => []
  end.

(* ------------------------------------------------------------------ gauge moves *)
Fixpoint set_nth (i v : nat) (l : list nat) : list nat :=
  match i, l with
  | O, _ :: l' => v :: l'
  | S i', x :: l' => x :: set_nth i' v l'
  | _, [] => []
  end.
Fixpoint replace_nth {A} (i : nat) (v : A) (l : list A) : list A :=
  match i, l with
  | O, _ :: l' => v :: l'
  | S i', x :: l' => x :: replace_nth i' v l'
  | _, [] => []
  end.
Fixpoint map_nth {A} (i : nat) (g : A -> A) (l : list A) : list A :=
  match i, l with
  | O, x :: l' => g x :: l'
  | S i', x :: l' => x :: map_nth i' g l'
  | _, [] => []
  end.

(* np.moveaxis(tensor, i, -1) on index tuples, and its inverse np.moveaxis(., -1, i) *)
Definition remove_nth (i : nat) (l : list nat) : list nat := firstn i l ++ skipn (S i) l.
Definition move_to_end (i : nat) (l : list nat) : list nat := remove_nth i l ++ [nth i l O].
Definition move_from_end (i : nat) (l : list nat) : list nat :=
  firstn i (removelast l) ++ [last l O] ++ skipn i (removelast l).

(* push_cano_to_parent(child i of the root of t):
     decompose_to_parent: child.tensor.reshape(-1, dc) = Q . V^T, child.tensor <- Q (new bond dimension m)
     merge_to_parent    : parent[.., j at axis i, ..] <- sum_a parent[.., a at axis i, ..] * V[a, j]      *)
Definition push_parent (i m : nat) (Q : tens) (V : nat -> nat -> R) (t : ttree) : ttree :=
  match t with
  | TNode l pd d T cs =>
    match nth_error cs i with
    | Some (TNode lc pdc dc _ ccs) =>
      TNode l pd d (fun ks ph p => sumn dc (fun a => T (set_nth i a ks) ph p * V a (nth i ks O)))
        (replace_nth i (TNode lc pdc m Q ccs) cs)
    | None => t
    end
  end.
(* the factorisation contract  M = Q . V^T  (svd_qn with QR=True, system "L"): *)
Definition qr_ok (t : ttree) (i m : nat) (Q : tens) (V : nat -> nat -> R) : Prop :=
  match nth_error (tch t) i with
  | Some c => forall ks ph a, all_lt (map tdim (tch c)) ks = true -> a < tdim c ->
                ttens c ks ph a = sumn m (fun j => Q ks ph j * V a j)
  | None => True
  end.

(* push_cano_to_child / compress_node(root of t, child i):
     M = moveaxis(node.tensor, i, -1).reshape(-1, d_i) = U . V^T
     node.tensor  <- moveaxis(U.reshape(shape[:-1] + [m]), -1, i)
     child.tensor <- tensordot(child.tensor, V, axes=[-1, 0])
   U is indexed by the moved index tuple  (other children, physical, parent, new bond). *)
Definition push_child (i m : nat) (U : list nat -> R) (V : nat -> nat -> R) (t : ttree) : ttree :=
  match t with
  | TNode l pd d T cs =>
    match nth_error cs i with
    | Some (TNode lc pdc dc Tc ccs) =>
      TNode l pd d (fun ks ph p => U (move_to_end i (ks ++ ph ++ [p])))
        (replace_nth i (TNode lc pdc m (fun ks ph j => sumn dc (fun a => Tc ks ph a * V a j)) ccs) cs)
    | None => t
    end
  end.
Definition uv_ok (t : ttree) (i m : nat) (U : list nat -> R) (V : nat -> nat -> R) : Prop :=
  forall ks ph p a, all_lt (map tdim (tch t)) ks = true ->
    ttens t (set_nth i a ks) ph p = sumn m (fun j => U (remove_nth i ks ++ ph ++ [p] ++ [j]) * V a j).

(* a transformation of the sub-tree reached by a path of child positions *)
Fixpoint at_path (path : list nat) (f : ttree -> ttree) (t : ttree) : ttree :=
  match path with
  | [] => f t
  | i :: path' => match t with TNode l pd d T cs => TNode l pd d T (map_nth i (at_path path' f) cs) end
  end.
Fixpoint subtree (path : list nat) (t : ttree) : option ttree :=
  match path with
  | [] => Some t
  | i :: path' => match nth_error (tch t) i with Some c => subtree path' c | None => None end
  end.

Inductive gstep : Type :=
| GParent (path : list nat) (i m : nat) (Q : tens) (V : nat -> nat -> R)
| GChild (path : list nat) (i m : nat) (U : list nat -> R) (V : nat -> nat -> R).

Definition run_step (st : gstep) (t : ttree) : ttree :=
  match st with
  | GParent path i m Q V => at_path path (push_parent i m Q V) t
  | GChild path i m U V => at_path path (push_child i m U V) t
  end.
Definition step_ok (st : gstep) (t : ttree) : Prop :=
  match st with
  | GParent path i m Q V => match subtree path t with Some u => qr_ok u i m Q V | None => True end
  | GChild path i m U V => match subtree path t with Some u => i < length (tch u) /\ uv_ok u i m U V | None => True end
  end.
Fixpoint run_steps (sts : list gstep) (t : ttree) : ttree :=
  match sts with [] => t | st :: sts' => run_steps sts' (run_step st t) end.
Fixpoint steps_ok (sts : list gstep) (t : ttree) : Prop :=
  match sts with [] => True | st :: sts' => step_ok st t /\ steps_ok sts' (run_step st t) end.

(* canonicalise(): for node in postorder_list()[:-1]: push_cano_to_parent(node).
   Schedule = (path of the parent, position of the node among its siblings), post-order, root excluded. *)
Fixpoint cano_sched_from (path : list nat) (t : ttree) {struct t} : list (list nat * nat) :=
  match t with
  | TNode _ _ _ _ cs =>
    (fix go (cs : list ttree) (i : nat) {struct cs} : list (list nat * nat) :=
       match cs with
       | [] => []
       | c :: cs' => cano_sched_from (path ++ [i]) c ++ [(path, i)] ++ go cs' (S i)
       end) cs O
  end.
Definition cano_sched (t : ttree) := cano_sched_from [] t.
Definition step_pos (st : gstep) : list nat * nat :=
  match st with GParent path i _ _ _ => (path, i) | GChild path i _ _ _ => (path, i) end.
Definition is_parent_step (st : gstep) : bool := match st with GParent _ _ _ _ _ => true | _ => false end.

(* ------------------------------------------------------------------ child order *)
Fixpoint swap_at (n : nat) (l : list nat) : list nat :=
  match n, l with
  | O, x :: y :: l' => y :: x :: l'
  | S n', x :: l' => x :: swap_at n' l'
  | _, _ => l
  end.

(* re-listing the children of nodes, the tensor axes following: generated by swapping two adjacent
   children of the root node and by re-listing inside one child *)
Inductive tperm : ttree -> ttree -> Prop :=
| tp_refl : forall t, tperm t t
| tp_swap : forall l pd d T c1 x y c2,
    tperm (TNode l pd d T (c1 ++ x :: y :: c2))
          (TNode l pd d (fun ks ph p => T (swap_at (length c1) ks) ph p) (c1 ++ y :: x :: c2))
| tp_child : forall l pd d T c1 c c' c2, tperm c c' ->
    tperm (TNode l pd d T (c1 ++ c :: c2)) (TNode l pd d T (c1 ++ c' :: c2))
| tp_trans : forall t1 t2 t3, tperm t1 t2 -> tperm t2 t3 -> tperm t1 t3.

(* ------------------------------------------------------------------ from_mps *)
(* site i of the chain becomes node_list[::-1][i]: the last site is the root, the first site the leaf
   (its empty left bond removed); axes (left, phys, right) = (child, phys, parent). *)
Definition mps_leaf (l pd : nat) (dt : nat * T3 R) : ttree :=
  TNode l [pd] (fst dt) (fun _ ph p => snd dt O (hd O ph) p) [].
Definition mps_wrap (l pd : nat) (dt : nat * T3 R) (acc : ttree) : ttree :=
  TNode l [pd] (fst dt) (fun ks ph p => snd dt (hd O ks) (hd O ph) p) [acc].
Fixpoint mps_wraps (acc : ttree) (l : nat) (pds : list nat) (ts : list (nat * T3 R)) {struct ts} : ttree :=
  match ts, pds with
  | dt :: ts', pd :: pds' => mps_wraps (mps_wrap l pd dt acc) (S l) pds' ts'
  | _, _ => acc
  end.
Definition from_mps (pds : list nat) (ts : list (nat * T3 R)) : option ttree :=
  match ts, pds with
  | dt :: ts', pd :: pds' => Some (mps_wraps (mps_leaf O pd dt) 1 pds' ts')
  | _, _ => None
  end.

(* ------------------------------------------------------------------ einsum index names (get_node_indices) *)
(* (_id, str(parent dofs), str(node dofs)) for bonds, ("down", str(dofs)) for physical indices.  The
   label of a node stands for str(dofs); None stands for "root". *)
Inductive iname : Type :=
| NBond (par : option nat) (child : nat)
| NPhys (l j : nat).

Definition node_names (par : option nat) (t : ttree) : list iname :=
  match t with
  | TNode l pd _ _ cs =>
    map (fun c => NBond (Some l) (tlbl c)) cs ++ map (fun j => NPhys l j) (seq O (length pd)) ++ [NBond par l]
  end.
(* names given to the parent axis of every node, pre-order *)
Fixpoint parent_names (par : option nat) (t : ttree) : list iname :=
  match t with TNode l _ _ _ cs => NBond par l :: flat_map (parent_names (Some l)) cs end.
(* names given to the child axes of every node, pre-order of the children *)
Fixpoint child_names (t : ttree) : list iname :=
  match t with TNode l _ _ _ cs => flat_map (fun c => NBond (Some l) (tlbl c) :: child_names c) cs end.
Fixpoint phys_names (t : ttree) : list iname :=
  match t with TNode l pd _ _ cs => map (fun j => NPhys l j) (seq O (length pd)) ++ flat_map phys_names cs end.

(* ------------------------------------------------------------------ exchange format *)
(* nested arrays (ndarray.tolist()); reading outside the array gives 0 *)
Inductive arr : Type := AZ (z : R) | AL (l : list arr).
Fixpoint aget (a : arr) (idx : list nat) {struct a} : R :=
  match a, idx with
  | AZ z, [] => z
  | AL l, i :: idx' =>
    (fix pick (l : list arr) (i : nat) {struct l} : R :=
       match l, i with
       | x :: _, O => aget x idx'
       | _ :: l', S i' => pick l' i'
       | [], _ => 0
       end) l i
  | _, _ => 0
  end.
Fixpoint abuild (dims : list nat) (f : list nat -> R) : arr :=
  match dims with
  | [] => AZ (f [])
  | d :: ds => AL (map (fun i => abuild ds (fun idx => f (i :: idx))) (seq O d))
  end.
Fixpoint aflat (a : arr) : list R :=
  match a with AZ z => [z] | AL l => flat_map aflat l end.

Fixpoint interleave (a b : list nat) : list nat :=
  match a, b with x :: a', y :: b' => x :: y :: interleave a' b' | _, _ => [] end.

Definition mk (l : nat) (pd : list nat) (d : nat) (a : arr) (cs : list ttree) : ttree :=
  TNode l pd d (fun ks ph p => aget a (ks ++ ph ++ [p])) cs.
Definition mko (pd : list nat) (d : nat) (a : arr) (cs : list otree) : otree :=
  ONode pd d (fun ks pu pdn p => aget a (ks ++ interleave pu pdn ++ [p])) cs.

Definition node_dims (t : ttree) : list nat := map tdim (tch t) ++ tpd t ++ [tdim t].
(* split a full index tuple back into (children, physical, parent) *)
Definition tens_of_flat (nc np : nat) (f : list nat -> R) : tens :=
  fun ks ph p => f (ks ++ ph ++ [p]).
Definition node_arr (t : ttree) : arr :=
  let nc := length (tch t) in let np := length (tpd t) in
  abuild (node_dims t) (fun idx => ttens t (firstn nc idx) (firstn np (skipn nc idx)) (nth (nc + np) idx O)).
(* tabulate every node tensor once and read it back (keeps composed operations cheap to evaluate) *)
Fixpoint tfreeze (t : ttree) : ttree :=
  match t with
  | TNode l pd d T cs =>
    let cs' := map tfreeze cs in
    mk l pd d (node_arr (TNode l pd d T cs')) cs'
  end.

End Ttns.

Arguments TNode {R} lbl pd d T cs.
Arguments ONode {R} pd d Ot cs.
Arguments AZ {R} z.
Arguments AL {R} l.

(* dump of a whole integer tree: pre-order, per node  [rank; dims...; entries (row-major)...] *)
Fixpoint tdump (t : ttree ZRing) : list Z :=
  match t with
  | TNode l pd d T cs =>
    let dims := node_dims ZRing (TNode l pd d T cs) in
    (Z.of_nat (length dims) :: map Z.of_nat dims) ++ aflat ZRing (node_arr ZRing (TNode l pd d T cs))
      ++ flat_map tdump cs
  end.

(* exact comparison carried out inside Coq (printing long lists is slow): [0] when equal, otherwise
   [kind; position; model value; implementation value] *)
Fixpoint zdiff_from (i : Z) (a b : list Z) : list Z :=
  match a, b with
  | [], [] => [0%Z]
  | x :: a', y :: b' => if Z.eqb x y then zdiff_from (i + 1)%Z a' b' else [1%Z; i; x; y]
  | x :: _, [] => [2%Z; i; x; 0%Z]
  | [], y :: _ => [3%Z; i; 0%Z; y]
  end.
Definition zdiff := zdiff_from 0%Z.
