(* Shared semantics of matrix-product chains over a commutative ring with involution.
   A site of a state is a rank-3 tensor  t l p r  (left bond, physical, right bond); a site of an
   operator / density operator is rank-4  t l pu pd r.  A chain is a list of (right bond dimension,
   tensor); the left dimension of the first site is supplied by the caller (1 for whole objects).
   [chain3 ts s l r] is the (l,r) entry of the product  T_1[s_1] ... T_n[s_n];  the dense amplitude
   of a whole state is [amp ts s = chain3 ts s 0 0].  No proofs here (see Proofs/ChainProofs.v).     *)
From Coq Require Import List Arith.
Import ListNotations.
From RV Require Import Base.CRing Base.BigSum.

Section Chain.
Variable R : CRing.

Definition T3 := nat -> nat -> nat -> R.
Definition T4 := nat -> nat -> nat -> nat -> R.

Fixpoint chain3 (ts : list (nat * T3)) (s : list nat) (l r : nat) : R :=
  match ts, s with
  | [], [] => if Nat.eqb l r then r1 R else r0 R
  | (d, t) :: ts', p :: s' => sumn d (fun m => rmul R (t l p m) (chain3 ts' s' m r))
  | _, _ => r0 R
  end.

Fixpoint chain4 (ts : list (nat * T4)) (su sd : list nat) (l r : nat) : R :=
  match ts, su, sd with
  | [], [], [] => if Nat.eqb l r then r1 R else r0 R
  | (d, t) :: ts', pu :: su', pd :: sd' => sumn d (fun m => rmul R (t l pu pd m) (chain4 ts' su' sd' m r))
  | _, _, _ => r0 R
  end.

Definition amp (ts : list (nat * T3)) (s : list nat) : R := chain3 ts s 0 0.
Definition opamp (ts : list (nat * T4)) (su sd : list nat) : R := chain4 ts su sd 0 0.

(* right dimension of a chain whose left dimension is dl *)
Definition lastdim {A} (dl : nat) (c : list (nat * A)) : nat := fold_left (fun _ x => fst x) c dl.

(* sum over all configurations s with s_i < dims_i *)
Fixpoint sumcfg (dims : list nat) (f : list nat -> R) : R :=
  match dims with
  | [] => f []
  | d :: ds => sumn d (fun p => sumcfg ds (fun s => f (p :: s)))
  end.

(* tabulation to / from nested lists (row-major, the exchange format with NumPy's tolist()) *)
Definition tab3 (dl dp dr : nat) (t : T3) : list (list (list R)) :=
  map (fun l => map (fun p => map (fun r => t l p r) (seq 0 dr)) (seq 0 dp)) (seq 0 dl).
Definition of3 (x : list (list (list R))) : T3 :=
  fun l p r => nth r (nth p (nth l x []) []) (r0 R).
Definition tab4 (dl du dd dr : nat) (t : T4) : list (list (list (list R))) :=
  map (fun l => map (fun pu => map (fun pd => map (fun r => t l pu pd r) (seq 0 dr)) (seq 0 dd)) (seq 0 du)) (seq 0 dl).
Definition of4 (x : list (list (list (list R)))) : T4 :=
  fun l pu pd r => nth r (nth pd (nth pu (nth l x []) []) []) (r0 R).

End Chain.
Arguments chain3 {R} ts s l r.
Arguments chain4 {R} ts su sd l r.
Arguments amp {R} ts s.
Arguments opamp {R} ts su sd.
Arguments sumcfg {R} dims f.
Arguments tab3 {R} dl dp dr t.
Arguments of3 {R} x.
Arguments tab4 {R} dl du dd dr t.
Arguments of4 {R} x.
