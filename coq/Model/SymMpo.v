(* Model of renormalizer/mps/symbolic_mpo.py (symbolic MPO construction and site swapping).

   Executable, total definitions only; the lemmas are in Proofs/SymMpoProofs.v.

   Data
     key      a list of naturals.  A *table row* is a key [a; o_1; ...; o_m; 0] (a = index of an
              operator on the current virtual bond, o_j = index of the primary operator on the j-th
              remaining site, trailing sentinel 0 exactly as the code appends it) plus a factor.
     outop    a formal sum of ([a; o], factor): "operator a of the previous bond times primary
              operator o on this site" -- an entry of `out_ops` (a list of OpTuple) of the code.
     bond     the list of out-ops living on one virtual bond (`out_ops_list[j]`).
   Everything is parametric in a commutative ring R and an exact-zero test `iszero`
   (the code's relative thresholds 1e-15 / 1e-10 are modelled as "drop exact zeros").

   Order conventions: np.unique sorts, the model keeps first-occurrence order; the free or numerical
   choices of the code (vertex cover, order of the selected rows, pivoted QR factors) enter as
   witnesses expressed in row / column KEYS, never in positions of a sorted array.  The tie compares
   bonds and tables as multisets. *)
From Coq Require Import List Arith Bool ZArith.
From RV Require Import Base.CRing.
Import ListNotations.

Definition key := list nat.
Definition key_eq_dec : forall a b : key, {a = b} + {a <> b} := list_eq_dec Nat.eq_dec.
Definition keqb (a b : key) : bool := if key_eq_dec a b then true else false.
Definition memb (a : key) (l : list key) : bool := existsb (keqb a) l.
Fixpoint nodupb (l : list key) : bool :=
  match l with [] => true | x :: r => negb (memb x r) && nodupb r end.
Definition subsetb (l1 l2 : list key) : bool := forallb (fun x => memb x l2) l1.
(* first-occurrence de-duplication of a key list *)
Fixpoint uniq_keys (l : list key) (seen : list key) : list key :=
  match l with
  | [] => []
  | x :: r => if memb x seen then uniq_keys r seen else x :: uniq_keys r (x :: seen)
  end.
Fixpoint enum_from {A} (n : nat) (l : list A) : list (nat * A) :=
  match l with [] => [] | x :: r => (n, x) :: enum_from (S n) r end.
Fixpoint index_of (k : nat) (p : list nat) : nat :=
  match p with [] => 0 | x :: r => if Nat.eqb x k then 0 else S (index_of k r) end.

Section SymMpo.
Variable R : CRing.
Variable iszero : R -> bool.       (* contract (Proofs): iszero x = true -> x = 0 *)

Local Notation rO := (r0 R).
Local Notation rI := (r1 R).
Local Infix "+!" := (radd R) (at level 50, left associativity).
Local Infix "*!" := (rmul R) (at level 40, left associativity).
Local Infix "-!" := (rsub R) (at level 50, left associativity).

Fixpoint lsum {A} (l : list A) (f : A -> R) : R :=
  match l with [] => rO | x :: r => f x +! lsum r f end.

Definition trow := (key * R)%type.
Definition table := list trow.
Definition outop := list (key * R).
Definition bond := list outop.
Definition mat := list (list R).
Definition mget (m : mat) (i j : nat) : R := nth j (nth i m []) rO.
Definition reqb (x y : R) : bool := iszero (x -! y).

(* ------------------------------------------------------------------ _deduplicate_table *)
(* add `factor` to the row with the same key, or append a new row *)
Fixpoint addrow (k : key) (f : R) (t : table) : table :=
  match t with
  | [] => [(k, f)]
  | x :: r => if keqb k (fst x) then (fst x, snd x +! f) :: r else x :: addrow k f r
  end.
Definition merge_rows (t : table) : table :=
  fold_left (fun acc x => addrow (fst x) (snd x) acc) t [].
(* merge equal rows (their factors are added), then drop the rows whose factor is zero *)
Definition dedup (t : table) : table :=
  filter (fun x => negb (iszero (snd x))) (merge_rows t).

(* ------------------------------------------------------------------ _terms_to_table *)
(* A term is given as its elementary operators [(site, local label)] in increasing site order (the
   result of Op.split_elementary; equal Op objects <-> equal (site,label)).  Interning: the identity
   of site i has index i; every other elementary operator receives the next free index at its first
   appearance. `tab` = the non-identity primary operators interned so far (index = nsite + position). *)
Definition elem := (nat * nat)%type.
Definition elem_eqb (a b : elem) : bool := Nat.eqb (fst a) (fst b) && Nat.eqb (snd a) (snd b).
Fixpoint lookup (e : elem) (tab : list elem) (n : nat) : option nat :=
  match tab with
  | [] => None
  | x :: r => if elem_eqb e x then Some n else lookup e r (S n)
  end.
Fixpoint set_nth (i v : nat) (l : list nat) : list nat :=
  match l, i with
  | [], _ => []
  | _ :: r, O => v :: r
  | x :: r, S j => x :: set_nth j v r
  end.
(* `idlab` = labels under which the per-site identity Op itself may appear in a term *)
Fixpoint intern_term (nsite : nat) (idlab : list elem) (tab : list elem) (es : list elem) (row : key)
  : list elem * key :=
  match es with
  | [] => (tab, row)
  | e :: r =>
      if existsb (elem_eqb e) idlab then intern_term nsite idlab tab r (set_nth (fst e) (fst e) row)
      else match lookup e tab nsite with
           | Some i => intern_term nsite idlab tab r (set_nth (fst e) i row)
           | None => intern_term nsite idlab (tab ++ [e]) r (set_nth (fst e) (nsite + length tab) row)
           end
  end.
Fixpoint intern_terms (nsite : nat) (idlab : list elem) (tab : list elem) (ts : list (list elem * R))
  : list elem * table :=
  match ts with
  | [] => (tab, [])
  | (es, f) :: r =>
      let '(tab1, row) := intern_term nsite idlab tab es (seq 0 nsite) in
      let '(tab2, rows) := intern_terms nsite idlab tab1 r in
      (tab2, (row, f) :: rows)
  end.
(* rows of the term list + the constant row (identity string, const) when const <> 0 *)
Definition raw_table (terms : table) (const : R) (idstr : key) : table :=
  terms ++ (if iszero const then [] else [(idstr, const)]).
Definition terms_to_table (terms : table) (const : R) (idstr : key) : table :=
  dedup (raw_table terms const idstr).
(* construct_symbolic_mpo: `table = np.concatenate((ta, table, ta), axis=1)` *)
Definition extend (t : table) : table := map (fun x => (0 :: fst x ++ [0], snd x)) t.

(* ------------------------------------------------------------------ one site: rows / columns / incidence *)
Definition rk (x : trow) : key := firstn 2 (fst x).        (* table[:, :2]  *)
Definition ck (x : trow) : key := skipn 2 (fst x).         (* table[:, 2:]  *)
Definition fac (x : trow) : R := snd x.
Definition urows (t : table) : list key := uniq_keys (map rk t) [].     (* term_row (as a set) *)
Definition ucols (t : table) : list key := uniq_keys (map ck t) [].     (* term_col *)
Definition incidence (t : table) : list (key * key) := map (fun x => (rk x, ck x)) t.   (* non_red *)
Definition is_cover (t : table) (rsel csel : list key) : bool :=
  forallb (fun x => memb (rk x) rsel || memb (ck x) csel) t.
Definition graph_wit_ok (t : table) (rsel csel : list key) : bool :=
  nodupb rsel && nodupb csel && is_cover t rsel csel
  && subsetb rsel (urows t) && subsetb csel (ucols t).

(* ------------------------------------------------------------------ _decompose_graph *)
(* selected rows are taken whole: out-op = the row operator itself with factor 1; the new table gets
   one row (position of the out-op :: column key) per linked column, carrying the term's factor *)
Definition out_rows (rsel : list key) : bond := map (fun r => [(r, rI)]) rsel.
Definition new_rows (t : table) (rsel : list key) : table :=
  flat_map (fun ir => map (fun x => (fst ir :: ck x, fac x)) (filter (fun x => keqb (rk x) (snd ir)) t))
           (enum_from 0 rsel).
(* selected columns: the entries not yet eliminated form the complementary operator, which carries
   the factors; one new row with factor 1 *)
Definition out_cols (t : table) (rsel csel : list key) : bond :=
  map (fun c => map (fun x => (rk x, fac x))
                    (filter (fun x => keqb (ck x) c && negb (memb (rk x) rsel)) t)) csel.
Definition new_cols (rsel csel : list key) : table :=
  map (fun jc => (fst jc :: snd jc, rI)) (enum_from (length rsel) csel).
Definition decompose_graph (t : table) (rsel csel : list key) : bond * table :=
  (out_rows rsel ++ out_cols t rsel csel, new_rows t rsel ++ new_cols rsel csel).

(* ------------------------------------------------------------------ _decompose_qr *)
(* Gamma_{jk}: factor of the term with row key j and column key k (0 if absent) *)
Definition gamma (t : table) (r c : key) : R :=
  lsum t (fun x => if keqb (rk x) r && keqb (ck x) c then fac x else rO).
(* r2 = r[:rank, argsort(p)] *)
Definition unpivot (r : mat) (p : list nat) (ncols : nat) : mat :=
  map (fun rowl => map (fun k => nth (index_of k p) rowl rO) (seq 0 ncols)) r.
(* witness: qrows/qcols = term_row / term_col in the order the matrices refer to;
   q : |qrows| x rank, r2 : rank x |qcols| *)
Definition qr_out_ops (qrows : list key) (q : mat) (rank : nat) : bond :=
  map (fun l => flat_map (fun ik => let v := mget q (fst ik) l in
                                    if iszero v then [] else [(snd ik, v)]) (enum_from 0 qrows))
      (seq 0 rank).
Definition qr_new_table (qcols : list key) (r2 : mat) (rank : nat) : table :=
  flat_map (fun l => flat_map (fun jk => let v := mget r2 l (fst jk) in
                                         if iszero v then [] else [(l :: snd jk, v)]) (enum_from 0 qcols))
           (seq 0 rank).
Definition qr_prod (q r2 : mat) (rank i j : nat) : R :=
  lsum (seq 0 rank) (fun l => mget q i l *! mget r2 l j).
Definition qr_wit_ok (t : table) (qrows qcols : list key) (q r2 : mat) (rank : nat) : bool :=
  nodupb qrows && nodupb qcols && subsetb (map rk t) qrows && subsetb (map ck t) qcols
  && forallb (fun ik => forallb (fun jk => reqb (gamma t (snd ik) (snd jk)) (qr_prod q r2 rank (fst ik) (fst jk)))
                                (enum_from 0 qcols)) (enum_from 0 qrows).
(* residuals Gamma*scale - q.r2 (row-major), for the tolerance check of float witnesses *)
Definition qr_residual (scale : R) (t : table) (qrows qcols : list key) (q r2 : mat) (rank : nat) : list R :=
  flat_map (fun ik => map (fun jk => scale *! gamma t (snd ik) (snd jk) -! qr_prod q r2 rank (fst ik) (fst jk))
                          (enum_from 0 qcols)) (enum_from 0 qrows).

(* ------------------------------------------------------------------ the sweep over the sites *)
Inductive wit :=
| WG (rsel csel : list key)
| WQ (qrows qcols : list key) (q r2 : mat) (rank : nat).
Definition step (t : table) (w : wit) : bond * table :=
  match w with
  | WG rsel csel => decompose_graph t rsel csel
  | WQ qrows qcols q r2 rank => (qr_out_ops qrows q rank, qr_new_table qcols r2 rank)
  end.
Definition wit_okb (t : table) (w : wit) : bool :=
  match w with
  | WG rsel csel => graph_wit_ok t rsel csel
  | WQ qrows qcols q r2 rank => qr_wit_ok t qrows qcols q r2 rank
  end.
Fixpoint sweep (ws : list wit) (t : table) : list bond * table :=
  match ws with
  | [] => ([], t)
  | w :: r => let bt := step t w in
              let res := sweep r (snd bt) in (fst bt :: fst res, snd res)
  end.
Fixpoint sweep_okb (ws : list wit) (t : table) : bool :=
  match ws with
  | [] => true
  | w :: r => wit_okb t w && sweep_okb r (snd (step t w))
  end.
(* tables entering each step (for the tie) *)
Fixpoint sweep_tables (ws : list wit) (t : table) : list table :=
  match ws with
  | [] => [t]
  | w :: r => t :: sweep_tables r (snd (step t w))
  end.
(* `assert len(factor) == 1 and len(table) == 1; assert factor[0] == 1` *)
Definition final_okb (t : table) : bool :=
  match t with
  | [(k, f)] => keqb k [0; 0] && reqb f rI
  | _ => false
  end.

(* the single-row fast path of construct_symbolic_mpo: operator j of the row on site j, the factor on
   the last site *)
Fixpoint fast_path (ops : key) (f : R) : list bond :=
  match ops with
  | [] => []
  | [o] => [[[([0; o], f)]]]
  | o :: r => [[([0; o], rI)]] :: fast_path r f
  end.
(* construct_symbolic_mpo; None = one of the code's assertions fails *)
Definition construct (terms : table) (const : R) (idstr : key) (ws : list wit) : option (list bond) :=
  match terms_to_table terms const idstr with
  | [(ops, f)] => Some (fast_path ops f)
  | t => let res := sweep ws (extend t) in
         if final_okb (snd res) then Some (fst res) else None
  end.

(* ------------------------------------------------------------------ compose_symbolic_mo *)
(* mo[a][i] = list of (factor, primary operator) *)
Definition mo := list (list (list (R * nat))).
Definition compose_mo (nin : nat) (b : bond) : mo :=
  map (fun a => map (fun oo => flat_map (fun p => match fst p with
                                                  | [a'; o] => if Nat.eqb a' a then [(snd p, o)] else []
                                                  | _ => []
                                                  end) oo) b) (seq 0 nin).
Definition mo_coeff (m : mo) (a i o : nat) : R :=
  lsum (nth i (nth a m []) []) (fun p => if Nat.eqb (snd p) o then fst p else rO).

(* ------------------------------------------------------------------ denotation *)
(* den: operator index on a bond -> string of primary operators on the sites to its left, LAST site
   first -> coefficient.  Equality of these coefficient functions is equality of the operators for
   every assignment of local matrices, because the dense operator is the linear image
   sum_s coeff(s) * kron_j M_j(s_j) of the coefficient function. *)
Definition den := nat -> list nat -> R.
Definition D0 : den := fun a l => match a, l with O, [] => rI | _, _ => rO end.
Definition drow (D : den) (l : list nat) (o : nat) (k : key) : R :=
  match k with
  | [a; o'] => if Nat.eqb o' o then D a l else rO
  | _ => rO
  end.
Definition dnext (D : den) (b : bond) : den :=
  fun i s => match s with
             | [] => rO
             | o :: l => lsum (nth i b []) (fun p => snd p *! drow D l o (fst p))
             end.
Fixpoint dchain (D : den) (bs : list bond) : den :=
  match bs with [] => D | b :: r => dchain (dnext D b) r end.
(* the operator a (bond-so-far D, remaining table t) pair stands for: coefficient of the string
   (left part l reversed, right part r incl. the sentinel) *)
Definition den_table (D : den) (t : table) (l : list nat) (r : key) : R :=
  lsum t (fun x => match fst x with
                   | a :: rest => if keqb rest r then snd x *! D a l else rO
                   | [] => rO
                   end).
(* coefficient function of a term table *)
Definition coeffT (t : table) (s : key) : R := lsum t (fun x => if keqb (fst x) s then snd x else rO).
(* coefficient function of a symbolic MPO given by its bonds 1..n (bond 0 = [[([0],1)]]):
   string s in site order *)
Definition coeff (bs : list bond) (s : list nat) : R := dchain D0 bs 0 (rev s).
(* the same through the matrices of compose_symbolic_mo: row vector times matrix *)
Definition vnext (v : den) (nin : nat) (m : mo) : den :=
  fun i s => match s with
             | [] => rO
             | o :: l => lsum (seq 0 nin) (fun a => v a l *! mo_coeff m a i o)
             end.

(* executable expansion of a symbolic MPO into a term table (reversed strings), merging after each
   site; used by the tie to evaluate `coeff` of the implementation's exported MPO *)
Definition expand_step (st : list table) (b : bond) : list table :=
  map (fun oo => dedup (flat_map (fun p => match fst p with
                                           | [a; o] => map (fun x => (o :: fst x, snd p *! snd x)) (nth a st [])
                                           | _ => []
                                           end) oo)) b.
Definition expand (bs : list bond) : table :=
  nth 0 (fold_left expand_step bs [[([], rI)]]) [].
(* difference mpo - scale * terms as a merged table; empty iff the coefficient functions agree *)
Definition coeff_diff (bs : list bond) (scale : R) (terms : table) : table :=
  dedup (map (fun x => (rev (fst x), snd x)) (expand bs)
         ++ map (fun x => (fst x, ropp R (scale *! snd x))) terms).

(* ------------------------------------------------------------------ swap_site *)
(* expanded two-site operator of bond-3 operator number i:
   rows [out_ops1 idx; site-2 op; site-1 op; nprim + i; 0] (the two site columns already exchanged,
   the label column and the sentinel appended) *)
Definition swap_table (nprim : nat) (b2 b3 : bond) : table :=
  flat_map (fun io => flat_map (fun p3 => match fst p3 with
                                          | [a2; o2] => flat_map (fun p2 => match fst p2 with
                                                                            | [a1; o1] => [([a1; o2; o1; nprim + fst io; 0], snd p2 *! snd p3)]
                                                                            | _ => []
                                                                            end) (nth a2 b2 [])
                                          | _ => []
                                          end) (snd io)) (enum_from 0 b3).
(* re-sort the new bond-3 operators by their labels and fold the label factors back:
   new_out_ops3[idx2 - nprim] = factor * new_out_ops3_unsorted[idx1] *)
Definition find_label (lab : nat) (last : outop) : option (nat * R) :=
  match filter (fun p => match fst p with [_; l] => Nat.eqb l lab | _ => false end) last with
  | [p] => match fst p with [i; _] => Some (i, snd p) | _ => None end
  | _ => None
  end.
Definition scale_outop (f : R) (oo : outop) : outop := map (fun p => (fst p, snd p *! f)) oo.
Fixpoint resort (nprim n : nat) (i : nat) (unsorted : bond) (last : outop) : option bond :=
  match n with
  | O => Some []
  | S m => match find_label (nprim + i) last, resort nprim m (S i) unsorted last with
           | Some (i1, f), Some rest => Some (scale_outop f (nth i1 unsorted []) :: rest)
           | _, _ => None
           end
  end.
(* swap_site(out_ops_list[i:i+3], ...), swap_jw = False.  None = an assertion of the code fails
   (final table, missing or repeated label). *)
Definition swap_site (nprim : nat) (b2 b3 : bond) (ws : list wit) : option (bond * bond) :=
  let t := dedup (swap_table nprim b2 b3) in
  match sweep ws t with
  | ([nb2; nb3u; [last]], tf) =>
      if final_okb tf && Nat.eqb (length nb3u) (length b3) then
        match resort nprim (length b3) 0 nb3u last with
        | Some nb3 => Some (nb2, nb3)
        | None => None
        end
      else None
  | _ => None
  end.

(* ------------------------------------------------------------------ swap_site with swap_jw = True
   table_and_factor_swapped_jw: after deduplication every row [a1; p; q; label; 0] (p = operator of the old
   second site, now first; q = operator of the old first site) is rewritten by the Jordan-Wigner rule, kept
   ABSTRACT here: phi (p, q) = (p', q', c) -- the indices under which the words produced by the rule are
   interned (new primary operators are appended, so the label column is shifted by nprim' - nprim) and the
   sign c.  No second deduplication (as in the code). *)
Definition jw_row (phi : nat * nat -> nat * nat * R) (d : nat) (x : trow) : trow :=
  match fst x with
  | [a1; p; q; lab; z] => let '(p', q', c) := phi (p, q) in ([a1; p'; q'; lab + d; z], c *! snd x)
  | _ => x
  end.
Definition swap_site_jw (nprim nprim' : nat) (phi : nat * nat -> nat * nat * R) (b2 b3 : bond) (ws : list wit)
  : option (bond * bond) :=
  let t := map (jw_row phi (nprim' - nprim)) (dedup (swap_table nprim b2 b3)) in
  match sweep ws t with
  | ([nb2; nb3u; [last]], tf) =>
      if final_okb tf && Nat.eqb (length nb3u) (length b3) then
        match resort nprim' (length b3) 0 nb3u last with
        | Some nb3 => Some (nb2, nb3)
        | None => None
        end
      else None
  | _ => None
  end.
(* the rule as a finite table (execution / tie): pairs not listed are left unchanged with sign 1 *)
Definition phi_of_table (tbl : list ((nat * nat) * (nat * nat * R))) (pq : nat * nat) : nat * nat * R :=
  match find (fun e => Nat.eqb (fst (fst e)) (fst pq) && Nat.eqb (snd (fst e)) (snd pq)) tbl with
  | Some e => snd e
  | None => (fst pq, snd pq, rI)
  end.

(* ------------------------------------------------------------------ bond dimensions *)
(* the witness is a MINIMUM vertex cover (what bipartite_vertex_cover promises; property C20) *)
Definition cover_size (rsel csel : list key) : nat := length rsel + length csel.
(* graph-only sweeps: every step's witness is a vertex cover inside the rows / columns of its table *)
Fixpoint graph_sweep (ws : list wit) : bool :=
  match ws with [] => true | WG _ _ :: r => graph_sweep r | WQ _ _ _ _ _ :: _ => false end.
Definition bond_dims (bs : list bond) : list nat := map (@length outop) bs.

(* ------------------------------------------------------------------ quantum-number labels of the bonds
   (one charge component; the code does the same for every component).  `pq o` = charge of primary
   operator o.  As in construct_symbolic_mpo, the label of an out-op is the charge of its FIRST summand:
   `mpoqn[j] = [out_op[0].qn for out_op in out_ops]`, `_compute_qn = in_ops[a][0].qn + primary_ops[o].qn`. *)
Definition qn_outop (pq : nat -> Z) (lab : list Z) (oo : outop) : Z :=
  match oo with
  | p :: _ => match fst p with [a; o] => (nth a lab 0 + pq o)%Z | _ => 0%Z end
  | [] => 0%Z
  end.
Definition bond_labels (pq : nat -> Z) (lab : list Z) (b : bond) : list Z := map (qn_outop pq lab) b.
(* labels of bonds 1..n given the labels of bond 0 *)
Fixpoint labels_chain (pq : nat -> Z) (lab : list Z) (bs : list bond) : list (list Z) :=
  match bs with
  | [] => []
  | b :: r => let l1 := bond_labels pq lab b in l1 :: labels_chain pq l1 r
  end.
(* qntot = label of the single operator of the last bond (then overwritten by 0 in mpoqn) *)
Definition qntot_of (pq : nat -> Z) (bs : list bond) : Z :=
  nth 0 (last (labels_chain pq [0%Z] bs) [0%Z]) 0%Z.
(* total charge of a string of primary operators *)
Definition charge (pq : nat -> Z) (k : key) : Z := fold_right (fun o acc => (pq o + acc)%Z) 0%Z k.
(* every selected column keeps at least one entry (its complementary operator is not empty; otherwise
   `out_op[0]` of the code raises) *)
Definition cols_nonempty (t : table) (rsel csel : list key) : bool :=
  forallb (fun c => existsb (fun x => keqb (ck x) c && negb (memb (rk x) rsel)) t) csel.

(* run-time check of the Koenig certificates (hypothesis `cert_sweep` of the left-part bound): mts = one matching per site *)
Definition pair_nodupb (l : list key) : bool := nodupb l.
Definition matching_certb (t : table) (rsel csel : list key) (mt : list (key * key)) : bool :=
  forallb (fun e => existsb (fun x => keqb (rk x) (fst e) && keqb (ck x) (snd e)) t) mt
  && nodupb (map fst mt) && nodupb (map snd mt) && Nat.eqb (length mt) (cover_size rsel csel).
Fixpoint cert_sweepb (ws : list wit) (mts : list (list (key * key))) (t : table) : bool :=
  match ws, mts with
  | [], _ => true
  | WG rs cs :: r, mt :: mr => is_cover t rs cs && nodupb rs && nodupb cs && matching_certb t rs cs mt
                               && cert_sweepb r mr (snd (decompose_graph t rs cs))
  | _, _ => false
  end.

(* run-time check of the hypotheses of mpo_qn_labels along a graph sweep *)
Fixpoint qn_sweepb (ws : list wit) (t : table) : bool :=
  match ws with
  | [] => true
  | WG rs cs :: r => subsetb rs (map rk t) && cols_nonempty t rs cs && qn_sweepb r (snd (decompose_graph t rs cs))
  | WQ _ _ _ _ _ :: _ => false
  end.

End SymMpo.


(* ================================================================== execution instances + tie encoders
   (used only by the generated Corr/ case files; results are flat `list Z` with length prefixes) *)
From Coq Require Import ZArith.
Definition z_zero (x : Z) : bool := Z.eqb x 0.
Definition gi_zero (x : gi) : bool := Z.eqb (fst x) 0 && Z.eqb (snd x) 0.

Definition enc_key (k : key) : list Z := Z.of_nat (length k) :: map Z.of_nat k.
Definition enc_tab (t : table GiRing) : list Z :=
  Z.of_nat (length t) :: flat_map (fun x => enc_key (fst x) ++ [fst (snd x); snd (snd x)]) t.
Definition enc_bond (b : bond GiRing) : list Z := Z.of_nat (length b) :: flat_map enc_tab b.
Definition enc_bonds (bs : list (bond GiRing)) : list Z := Z.of_nat (length bs) :: flat_map enc_bond bs.
Definition enc_tabs (ts : list (table GiRing)) : list Z := Z.of_nat (length ts) :: flat_map enc_tab ts.
Definition enc_mo (m : mo GiRing) : list Z :=
  Z.of_nat (length m) ::
  flat_map (fun rowl => Z.of_nat (length rowl) ::
     flat_map (fun l => Z.of_nat (length l) :: flat_map (fun p => [fst (fst p); snd (fst p); Z.of_nat (snd p)]) l) rowl) m.
Definition b2z (b : bool) : Z := if b then 1%Z else 0%Z.
Definition bond0 : bond GiRing := [[([0], (1, 0)%Z)]].
Fixpoint compose_all (prev : nat) (bs : list (bond GiRing)) : list (mo GiRing) :=
  match bs with [] => [] | b :: r => compose_mo GiRing prev b :: compose_all (length b) r end.

(* graph algorithms / fast path: everything the tie compares, for one (case, algorithm) *)
Definition tie_table (nsite : nat) (idlab : list elem) (terms : list (list elem * gi)) (const : gi) : list Z :=
  let it := intern_terms GiRing nsite idlab [] terms in
  enc_tab (terms_to_table GiRing gi_zero (snd it) const (seq 0 nsite))
  ++ Z.of_nat (length (fst it)) :: flat_map (fun e => [Z.of_nat (fst e); Z.of_nat (snd e)]) (fst it).
Definition tie_graph (nsite : nat) (idlab : list elem) (terms : list (list elem * gi)) (const : gi) (cscale : gi)
           (ws : list (wit GiRing)) (mts : list (list (key * key))) (impl_bonds : list (bond GiRing)) : list Z :=
  let tt := snd (intern_terms GiRing nsite idlab [] terms) in
  let t0 := terms_to_table GiRing gi_zero tt const (seq 0 nsite) in
  let raw := raw_table GiRing gi_zero tt const (seq 0 nsite) in
  let fastp := match t0 with [_] => true | _ => false end in
  let res := sweep GiRing gi_zero ws (extend GiRing t0) in
  [b2z fastp; b2z (sweep_okb GiRing gi_zero ws (extend GiRing t0)); b2z (final_okb GiRing gi_zero (snd res));
   b2z (qn_sweepb GiRing ws (extend GiRing t0)); b2z (cert_sweepb GiRing ws mts (extend GiRing t0))]
  ++ enc_bonds (match construct GiRing gi_zero tt const (seq 0 nsite) ws with Some bs => bs | None => [] end)
  ++ enc_tabs (sweep_tables GiRing gi_zero ws (extend GiRing t0))
  ++ enc_tab (coeff_diff GiRing gi_zero impl_bonds cscale raw)
  ++ Z.of_nat (length impl_bonds) :: flat_map enc_mo (compose_all 1 impl_bonds).
(* QR: residuals of every logged factorisation, bonds, tables, coefficient difference (all scaled).
   Large integers are reduced to their magnitude (max |re|,|im|, shifted right) before printing. *)
Definition gi_maxabs (l : list gi) : Z :=
  fold_left Z.max (flat_map (fun x => [Z.abs (fst x); Z.abs (snd x)]) l) 0%Z.
Fixpoint qr_checks (scale : gi) (shift : Z) (ws : list (wit GiRing)) (t : table GiRing) : list Z :=
  match ws with
  | [] => []
  | w :: r =>
      (match w with
       | WQ _ qrows qcols q r2 rank =>
           let res := qr_residual GiRing scale t qrows qcols q r2 rank in
           [b2z (nodupb qrows && nodupb qcols && subsetb (map (rk GiRing) t) qrows && subsetb (map (ck GiRing) t) qcols);
            Z.shiftr (gi_maxabs res) shift]
       | WG _ rs cs => [b2z (graph_wit_ok GiRing t rs cs); 0%Z]
       end) ++ qr_checks scale shift r (snd (step GiRing gi_zero t w))
  end.
Definition tie_qr (nsite : nat) (idlab : list elem) (terms : list (list elem * gi)) (const : gi) (scale cscale : gi)
           (shift cshift : Z) (ws : list (wit GiRing)) (impl_bonds : list (bond GiRing)) : list Z :=
  let tt := snd (intern_terms GiRing nsite idlab [] terms) in
  let t0 := terms_to_table GiRing gi_zero tt const (seq 0 nsite) in
  let raw := raw_table GiRing gi_zero tt const (seq 0 nsite) in
  let res := sweep GiRing gi_zero ws (extend GiRing t0) in
  let diff := coeff_diff GiRing gi_zero impl_bonds cscale raw in
  Z.of_nat (length ws) :: qr_checks scale shift ws (extend GiRing t0)
  ++ enc_bonds (fst res)
  ++ enc_tabs (sweep_tables GiRing gi_zero ws (extend GiRing t0))
  ++ [Z.of_nat (length diff); Z.shiftr (gi_maxabs (map snd diff)) cshift].
(* swap_site *)
Definition tie_swap (nprim : nat) (b2 b3 : bond GiRing) (ws : list (wit GiRing)) : list Z :=
  let t := dedup GiRing gi_zero (swap_table GiRing nprim b2 b3) in
  b2z (sweep_okb GiRing gi_zero ws t) ::
  match swap_site GiRing gi_zero nprim b2 b3 ws with
  | Some (nb2, nb3) => 1%Z :: enc_bond nb2 ++ enc_bond nb3
  | None => [0%Z]
  end.

(* labels of all bonds (one charge component) + qntot, computed from out-op lists *)
Definition tie_qn (pql : list Z) (bs : list (bond GiRing)) : list Z :=
  let pq := fun o => nth o pql 0%Z in
  let ls := labels_chain GiRing pq [0%Z] bs in
  qntot_of GiRing pq bs :: Z.of_nat (length ls) :: flat_map (fun l => Z.of_nat (length l) :: l) ls.

(* swap_site with the Jordan-Wigner rule given as a finite table *)
Definition tie_swap_jw (nprim nprim' : nat) (tbl : list ((nat * nat) * (nat * nat * gi))) (b2 b3 : bond GiRing)
           (ws : list (wit GiRing)) : list Z :=
  let t := map (jw_row GiRing (phi_of_table GiRing tbl) (nprim' - nprim)) (dedup GiRing gi_zero (swap_table GiRing nprim b2 b3)) in
  b2z (sweep_okb GiRing gi_zero ws t) ::
  match swap_site_jw GiRing gi_zero nprim nprim' (phi_of_table GiRing tbl) b2 b3 ws with
  | Some (nb2, nb3) => 1%Z :: enc_bond nb2 ++ enc_bond nb3
  | None => [0%Z]
  end.
