(* C05 -- model of the truncation mechanism (definitions only, no proofs).

   Part 1: exact-rational semantics of the NumPy fragments that occur in
           CompressConfig._threshold_m_trunc / _fixed_m_trunc / compute_m_trunc.  Gen/Trunc.v (generated
           from /repo/renormalizer/utils/configs.py by tx/trunc.py) is written in terms of these.
           A vector divided by its Euclidean norm is kept symbolically as (values, sum of squares): the
           comparison  sigma_i / ||sigma|| > thr  is evaluated WITHOUT square roots as
                 sigma_i^2 > thr^2 * sum_j sigma_j^2 ,
           which is equivalent for sigma_i >= 0 and thr > 0 (singular values and the asserted threshold
           range).  A zero norm gives 0/0 = nan in NumPy and every comparison with nan is False; this is
           modelled explicitly ([nv_elem_cmp] returns false when the sum of squares is 0).
   Part 2: independent specification notions (descending, non-negative, sub-sequences, discarded weight).
   Part 3: bookkeeping models of the chain sweep of MatrixProduct.compress and of the traversal
           tn/tree.py:compress_recursion, parameterised by the kept-count function. *)
From Coq Require Import QArith ZArith List Bool Arith.
Import ListNotations.
Local Open Scope Q_scope.

(* ---------------------------------------------------------------- Part 1: NumPy fragments over Q *)
Definition sumsq (s : list Q) : Q := fold_right (fun x acc => x * x + acc) 0 s.

(* s / scipy.linalg.norm(s), the norm kept as its square *)
Record normvec := mk_nv { nv_vals : list Q; nv_n2 : Q }.
Definition normalised (s : list Q) : normvec := mk_nv s (sumsq s).

Inductive cmpop := OpGt | OpGe | OpLt | OpLe.
Definition cmpQ (op : cmpop) (a b : Q) : bool :=
  match op with
  | OpGt => negb (Qle_bool a b)
  | OpGe => Qle_bool b a
  | OpLt => negb (Qle_bool b a)
  | OpLe => Qle_bool a b
  end.
(* (x / sqrt n2) op thr   for x >= 0, thr > 0 ; nan (n2 = 0) compares False *)
Definition nv_elem_cmp (op : cmpop) (n2 thr x : Q) : bool :=
  if Qeq_bool n2 0 then false else cmpQ op (x * x) (thr * thr * n2).
Definition nv_cmp (op : cmpop) (v : normvec) (thr : Q) : list bool :=
  map (nv_elem_cmp op (nv_n2 v) thr) (nv_vals v).

(* int(np.sum(boolean array)) *)
Definition count_true (b : list bool) : Z := Z.of_nat (length (filter (fun x => x) b)).
(* integer_array[i] for 0 <= i < len ; out-of-range / negative indices are outside the model, see [idx_ok] *)
Definition py_index (l : list Z) (i : Z) : Z := nth (Z.to_nat i) l 0%Z.
Definition idx_ok (l : list Z) (i : Z) : bool := (0 <=? i)%Z && (i <? Z.of_nat (length l))%Z.
Definition py_len {A : Type} (l : list A) : Z := Z.of_nat (length l).

(* temp_m_trunc argument of compress(): None | int | list/tuple/ndarray of int *)
Inductive temp_arg := TNone | TInt (v : Z) | TList (l : list Z).
(* range(a, b) and range(a, b, -1) *)
Definition py_range (a b : Z) : list Z := map (fun i => (a + Z.of_nat i)%Z) (seq 0 (Z.to_nat (b - a))).
Definition py_range_down (a b : Z) : list Z := map (fun i => (a - Z.of_nat i)%Z) (seq 0 (Z.to_nat (a - b))).
Definition is_none {A : Type} (o : option A) : bool := match o with None => true | Some _ => false end.
(* spectrum given as an association list (used by the trace correspondence) *)
Fixpoint lookupQ (k : Z) (l : list (Z * list Q)) : list Q :=
  match l with [] => [] | (k', v) :: r => if Z.eqb k k' then v else lookupQ k r end.

(* ---------------------------------------------------------------- Part 2: specification notions *)
Definition nonneg (s : list Q) : Prop := Forall (fun x => 0 <= x) s.
Inductive descending : list Q -> Prop :=
| desc_nil : descending []
| desc_cons : forall x t, Forall (fun y => y <= x) t -> descending t -> descending (x :: t).

Inductive subseq {A : Type} : list A -> list A -> Prop :=
| sub_nil : subseq [] []
| sub_take : forall x l t, subseq l t -> subseq (x :: l) (x :: t)
| sub_skip : forall x l t, subseq l t -> subseq l (x :: t).

(* discarded weight when the first m of s are kept *)
Definition discarded (m : nat) (s : list Q) : Q := sumsq (skipn m s).

(* "weakly above / below the threshold" without roots; equivalent to sigma_i/||sigma|| >= thr, <= thr *)
Definition weakly_above (s : list Q) (thr x : Q) : Prop := thr * thr * sumsq s <= x * x.
Definition weakly_below (s : list Q) (thr x : Q) : Prop := x * x <= thr * thr * sumsq s.

(* boolean executable versions used by the correspondence runs *)
Fixpoint descendingb (s : list Q) : bool :=
  match s with
  | [] => true
  | x :: t => forallb (fun y => Qle_bool y x) t && descendingb t
  end.

(* ---------------------------------------------------------------- Part 3a: chain sweep bookkeeping *)
(* MatrixProduct.iter_idx_list(full=False) started at the canonical centre (site 0 when to_right,
   site n-1 otherwise), for a chain of n sites *)
Definition iter_idx_list (n : nat) (to_right : bool) : list Z :=
  if to_right then map Z.of_nat (seq 0 (n - 1)) else map Z.of_nat (rev (seq 1 (n - 1))).
(* the bond physically cut by the SVD of site idx in _update_ms: u becomes site idx and its last index
   is bond idx+1 when sweeping to the right; vt becomes site idx and its first index is bond idx when
   sweeping to the left.  (mps.bond_dims has n+1 entries, bond b sits between sites b-1 and b.) *)
Definition cut_bond (idx : Z) (to_right : bool) : Z := if to_right then (idx + 1)%Z else idx.

Fixpoint set_nth {A : Type} (i : nat) (x : A) (l : list A) : list A :=
  match l, i with
  | [], _ => []
  | _ :: t, O => x :: t
  | y :: t, S j => y :: set_nth j x t
  end.

(* one compress() sweep: spectrum idx = the singular values svd_qn returns at that step (arbitrary),
   mt = the kept-count rule (sigma, idx, left) *)
Definition sweep_dims (mt : list Q -> Z -> bool -> Z) (spectrum : Z -> list Q) (to_right : bool)
           (idxs : list Z) (dims : list Z) : list Z :=
  fold_left (fun d idx => set_nth (Z.to_nat (cut_bond idx to_right))
                                  (Z.min (mt (spectrum idx) idx to_right) (py_len (spectrum idx))) d) idxs dims.
(* (u[:, :m_trunc] clips at the number of columns, hence the Z.min with the length) *)

(* ---------------------------------------------------------------- Part 3b: tree traversal *)
(* a tree of node indices (TTNS.node_idx); children in list order *)
Inductive tree := Node (id : nat) (children : list tree).
Definition tid (t : tree) : nat := match t with Node i _ => i end.
Definition tchildren (t : tree) : list tree := match t with Node _ c => c end.
Definition is_nil {A : Type} (l : list A) : bool := match l with [] => true | _ => false end.

Inductive event :=
| EvTrunc (parent child : nat) (cano_child : bool)    (* ttns.compress_node(snode, ichild, ..., cano_child) *)
| EvPush (child : nat).                                (* ttns.push_cano_to_parent(child) *)

(* tn/tree.py: compress_recursion(snode, ...) *)
Fixpoint compress_recursion (t : tree) : list event :=
  match t with
  | Node p cs =>
    (fix over (l : list tree) : list event :=
       match l with
       | [] => []
       | c :: r =>
         let cano_child := negb (is_nil (tchildren c)) in
         EvTrunc p (tid c) cano_child
           :: (if cano_child then compress_recursion c ++ [EvPush (tid c)] else [])
           ++ over r
       end) cs
  end.

Fixpoint preorder (t : tree) : list nat :=
  match t with
  | Node p cs => p :: (fix over (l : list tree) := match l with [] => [] | c :: r => preorder c ++ over r end) cs
  end.

Definition truncated_children (evs : list event) : list nat :=
  flat_map (fun e => match e with EvTrunc _ c _ => [c] | EvPush _ => [] end) evs.

(* bond dimensions indexed by the lower node of the bond.  compress_node sets the bond of `child` to
   the kept count computed with idx = node_idx[child], left = False; push_cano_to_parent is an economic
   QR whose new bond dimension [qr_dim child d] never exceeds the old one (contract stated where used) *)
Definition upd (f : nat -> Z) (i : nat) (x : Z) : nat -> Z := fun j => if Nat.eqb j i then x else f j.
Definition tree_dims (mt : list Q -> Z -> bool -> Z) (spectrum : nat -> list Q) (qr_dim : nat -> Z -> Z)
           (evs : list event) (dims : nat -> Z) : nat -> Z :=
  fold_left (fun d e => match e with
                        | EvTrunc _ c _ => upd d c (Z.min (mt (spectrum c) (Z.of_nat c) false) (py_len (spectrum c)))
                        | EvPush c => upd d c (qr_dim c (d c))
                        end) evs dims.

(* ---------------------------------------------------------------- Part 4: configuration objects and copies *)
(* A python object's attributes live in its __dict__.  The heap maps a reference (position) to the attribute
   namespace of a CompressConfig; C = the type of criteria (generated).  Arrays are modelled by value: no code
   of configs.py writes into a max_dims array in place (set_bonddim / update / relax assign new arrays). *)
Inductive dict_binding := DictFreshCopy | DictAlias.   (* new.__dict__ = self.__dict__.copy() | new.__dict__ = self.__dict__ *)
Inductive array_binding := ArrFreshCopy | ArrAlias.    (* new.max_dims = self.max_dims.copy() | (nothing / plain assignment) *)
Inductive attr_binding := AttrCopyMethod | AttrShare.  (* new.compress_config = self.compress_config.copy() | = self.compress_config *)

Record cfields (C : Type) := mk_cfields
  { f_criteria : C; f_threshold : Q; f_bond_dim_max_value : Z; f_max_dims : option (list Z) }.
Arguments mk_cfields {C} _ _ _ _.
Arguments f_criteria {C} _.
Arguments f_threshold {C} _.
Arguments f_bond_dim_max_value {C} _.
Arguments f_max_dims {C} _.

Definition heap (C : Type) := list (cfields C).
Definition h_get {C : Type} (dflt : cfields C) (h : heap C) (r : nat) : cfields C := nth r h dflt.
Definition h_set {C : Type} (h : heap C) (r : nat) (f : cfields C) : heap C := set_nth r f h.

(* CompressConfig.copy(): returns (heap, reference of the result's attribute namespace) *)
Definition copy_config {C : Type} (b : dict_binding) (dflt : cfields C) (h : heap C) (r : nat) : heap C * nat :=
  match b with
  | DictAlias => (h, r)
  | DictFreshCopy => (h ++ [h_get dflt h r], length h)
  end.
(* metacopy(): which configuration the new state object refers to *)
Definition metacopy_config {C : Type} (a : attr_binding) (b : dict_binding) (dflt : cfields C) (h : heap C) (r : nat)
  : heap C * nat :=
  match a with AttrShare => (h, r) | AttrCopyMethod => copy_config b dflt h r end.

(* attribute stores  x.compress_config.<attr> = v *)
Definition store_M {C : Type} (dflt : cfields C) (h : heap C) (r : nat) (v : Z) : heap C :=
  let f := h_get dflt h r in h_set h r (mk_cfields (f_criteria f) (f_threshold f) v (f_max_dims f)).
Definition store_criteria {C : Type} (dflt : cfields C) (h : heap C) (r : nat) (c : C) : heap C :=
  let f := h_get dflt h r in h_set h r (mk_cfields c (f_threshold f) (f_bond_dim_max_value f) (f_max_dims f)).
Definition store_threshold {C : Type} (dflt : cfields C) (h : heap C) (r : nat) (t : Q) : heap C :=
  let f := h_get dflt h r in h_set h r (mk_cfields (f_criteria f) t (f_bond_dim_max_value f) (f_max_dims f)).

(* the ONLY place where max_dims is (re)computed: compress() does
     if cc.bonddim_should_set: cc.set_bonddim(length)
   -- so max_dims is a cache filled from bond_dim_max_value when it is None (and the criterion has a limit),
   and never refreshed afterwards *)
Definition ensure_max_dims {C : Type} (should_set : C -> option (list Z) -> bool)
           (setb : option (list Z) -> Z -> nat -> list Z) (dflt : cfields C) (h : heap C) (r : nat) (length : nat) : heap C :=
  let f := h_get dflt h r in
  if should_set (f_criteria f) (f_max_dims f)
  then h_set h r (mk_cfields (f_criteria f) (f_threshold f) (f_bond_dim_max_value f)
                             (Some (setb (f_max_dims f) (f_bond_dim_max_value f) length)))
  else h.
