(* Model of Runge-Kutta order theory over exact rationals (no proofs in this file).
   Rooted trees are represented through the Butcher product:  Tau = single vertex,
   Gr u v = u with v grafted as an additional child of u's root.  Every rooted tree has such a
   representation (peel off the last child), so quantifying over [bt] quantifies over all rooted trees. *)
From Coq Require Import QArith ZArith List Arith Bool.
Import ListNotations.
From RV Require Import Gen.RkTableaux.
Local Open Scope Q_scope.

(* reduced arithmetic ( == to Qmult / Qplus, see RkProofs.qm_ok / qa_ok ) keeps vm_compute fast *)
Definition qm (x y : Q) : Q := Qred (x * y).
Definition qa (x y : Q) : Q := Qred (x + y).

Inductive bt := Tau | Gr (u v : bt).

Fixpoint order (t : bt) : nat := match t with Tau => 1 | Gr u v => order u + order v end.

(* gamma t = order t * prod_{children} gamma child ;  cprod t = prod over children of the root *)
Fixpoint cprod (t : bt) : Q :=
  match t with Tau => 1 | Gr u v => qm (cprod u) (qm (inject_Z (Z.of_nat (order v))) (cprod v)) end.
Definition gamma (t : bt) : Q := qm (inject_Z (Z.of_nat (order t))) (cprod t).

Definition qsum (l : list Q) : Q := fold_right qa 0 l.
Definition dotq (x y : list Q) : Q := qsum (map (fun p => qm (fst p) (snd p)) (combine x y)).

(* elementary weight vector: Phi(Tau)_i = 1 ; Phi(Gr u v)_i = Phi(u)_i * sum_j a_ij Phi(v)_j *)
Fixpoint Phi (a : list (list Q)) (t : bt) : list Q :=
  match t with
  | Tau => map (fun _ => 1) a
  | Gr u v => let pv := Phi a v in
              map (fun p => qm (fst p) (dotq (snd p) pv)) (combine (Phi a u) a)
  end.

Definition cond (a : list (list Q)) (b : list Q) (t : bt) : bool :=
  Qeq_bool (dotq b (Phi a t) * gamma t) 1.

(* all trees of a given order, by fuel *)
Fixpoint all_bt_fuel (fuel n : nat) : list bt :=
  match fuel with
  | O => []
  | S f =>
    if Nat.eqb n 1 then [Tau] else
    flat_map (fun k => flat_map (fun u => map (fun v => Gr u v) (all_bt_fuel f (n - k))) (all_bt_fuel f k))
             (seq 1 (n - 1))
  end.
Definition all_bt (n : nat) := all_bt_fuel n n.
Definition all_upto (n : nat) : list bt := flat_map all_bt (seq 1 n).

(* every row of b with its advertised order *)
Definition rows (t : tableau) : list (list Q * nat) := combine (t_b t) (t_order t).

Definition row_ok (a : list (list Q)) (r : list Q * nat) : bool :=
  forallb (cond a (fst r)) (all_upto (snd r)).
Definition tableau_ok (t : tableau) : bool := forallb (row_ok (t_a t)) (rows t).

Definition row_sums_ok (t : tableau) : bool :=
  forallb (fun p => Qeq_bool (qsum (fst p)) (snd p)) (combine (t_a t) (t_c t))
  && Nat.eqb (length (t_a t)) (t_stage t) && Nat.eqb (length (t_c t)) (t_stage t)
  && forallb (fun r => Nat.eqb (length r) (t_stage t)) (t_a t)
  && forallb (fun r => Nat.eqb (length r) (t_stage t)) (t_b t)
  && Nat.eqb (length (t_b t)) (length (t_order t)).

(* strictly lower triangular: a_ij = 0 for j >= i *)
Definition explicit_ok (t : tableau) : bool :=
  forallb (fun p => forallb (fun x => Qeq_bool x 0) (skipn (fst p) (snd p)))
          (combine (seq 0 (length (t_a t))) (t_a t)).

(* embedded pairs: the two advertised orders differ by exactly one (asserted by the adaptive branch) *)
Definition embedded_gap_ok (t : tableau) : bool :=
  match t_order t with
  | [o0; o1] => Nat.eqb o0 (S o1)
  | [_] => true
  | _ => false
  end.

(* ---- the constant-coefficient expansion, mirroring runge_kutta_ti_coefficient --------------
   table is (Nstage+1) x (Nstage+1); row 0 = e_0; row i+1 = [0; 1; (a_i . table[1:,1:])[:-1]]
   where table rows not yet computed are zero.  coeff = [1] ++ b . table[1:,1:]                *)
Definition vadd (x y : list Q) := map (fun p => qa (fst p) (snd p)) (combine x y).
Definition vscale (c : Q) (x : list Q) := map (qm c) x.
Definition zeros (n : nat) : list Q := repeat 0 n.
(* linear combination  sum_j w_j * rows_j  of vectors of length n *)
Definition lincomb (n : nat) (w : list Q) (rws : list (list Q)) : list Q :=
  fold_right vadd (zeros n) (map (fun p => vscale (fst p) (snd p)) (combine w rws)).

(* sub-table table[1:,1:] as list of rows (each of length ns); rows beyond those computed are zero *)
Fixpoint ti_rows (ns : nat) (a : list (list Q)) (done : list (list Q)) : list (list Q) :=
  match a with
  | [] => done
  | ai :: rest =>
      let padded := done ++ repeat (zeros ns) (ns - length done) in
      let v := lincomb ns ai padded in
      let newrow := 1 :: removelast v in
      ti_rows ns rest (done ++ [newrow])
  end.
Definition ti_coeff (t : tableau) : list (list Q) :=
  let sub := ti_rows (t_stage t) (t_a t) [] in
  map (fun b => 1 :: lincomb (t_stage t) b sub) (t_b t).

Definition qfact (k : nat) : Q := inject_Z (Z.of_nat (fact k)).
Definition ti_row_ok (r : list Q * nat) : bool :=
  forallb (fun k => Qeq_bool (nth k (fst r) 0 * qfact k) 1) (seq 0 (S (snd r))).
Definition ti_ok (t : tableau) : bool := forallb ti_row_ok (combine (ti_coeff t) (t_order t)).

(* ---- link between the two halves of the model: the k-th coefficient of the constant-coefficient
   expansion (the table recursion of runge_kutta_ti_coefficient) is the elementary weight of the
   tall tree with k vertices, b . A^(k-1) . 1 -- for every power up to the stage number, i.e. also
   beyond the advertised order, where the coefficient is no longer 1/k!                         *)
Fixpoint tall (k : nat) : bt :=
  match k with
  | O => Tau
  | S k' => match k' with O => Tau | S _ => Gr Tau (tall k') end
  end.
Definition ti_tall_row_ok (a : list (list Q)) (ns : nat) (p : list Q * list Q) : bool :=
  Nat.eqb (length (snd p)) (S ns) &&
  forallb (fun k => Qeq_bool (nth k (snd p) 0) (dotq (fst p) (Phi a (tall k)))) (seq 1 ns).
Definition ti_tall_ok (t : tableau) : bool :=
  Nat.eqb (length (ti_coeff t)) (length (t_b t)) &&
  forallb (ti_tall_row_ok (t_a t) (t_stage t)) (combine (t_b t) (ti_coeff t)).

(* ---- quadrature conditions in terms of the stored nodes c (what a time-dependent Hamiltonian is sampled
   at): sum_i b_i c_i^(k-1) = 1/k for k <= advertised order (the bushy-tree conditions with the row sums
   replaced by the node list itself, so a wrong c_i is seen even if the matrix row is right)          *)
Fixpoint qpow (c : Q) (n : nat) : Q := match n with O => 1 | S n' => qm c (qpow c n') end.
Definition quad_row_ok (c : list Q) (r : list Q * nat) : bool :=
  forallb (fun k => Qeq_bool (dotq (fst r) (map (fun x => qpow x (k - 1)) c) * inject_Z (Z.of_nat k)) 1)
          (seq 1 (snd r)).
Definition quad_ok (t : tableau) : bool := forallb (quad_row_ok (t_c t)) (rows t).

(* bushy tree with n leaves under the root (n+1 vertices), and the all-ones vector of a matrix *)
Fixpoint bushy (n : nat) : bt := match n with O => Tau | S n' => Gr (bushy n') Tau end.
Definition ones (a : list (list Q)) : list Q := map (fun _ => 1) a.
