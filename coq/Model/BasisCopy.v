(* C16 -- `BasisSet.copy(new_dof)` must return the same basis under a new dof name: structural obligation on the
   facts extracted by tx/basiscopy.py (Gen/BasisCopy.v).  No proofs in this file.

   A constructor parameter p (other than the dof name) is
     relevant   when some attribute computed from p is read by op_mat (or a method reachable from it),
     forwarded  when copy passes `self.a` for p and a faithfully stores p,
     absorbed   when p occurs only as the guard `if p:` of a block that re-assigns other parameters, its default is
                falsy, and all those parameters are themselves forwarded from the attributes that store the adjusted
                values (then rebuilding with the default p reproduces the stored state: BasisSineDVR `endpoint`).
   Obligation:  every argument of copy goes to the parameter its attribute stores, and every relevant parameter -- and
   `sigmaqn` whenever it is a constructor parameter -- is forwarded or absorbed. *)
From Coq Require Import List String Bool.
Import ListNotations.
Local Open Scope string_scope.

Record bclass := mk_bclass {
  bc_name : string;
  bc_params : list (string * bool * bool);          (* name, has a default, the default is falsy *)
  bc_stores : list (string * string);               (* attribute, parameter it faithfully stores *)
  bc_taints : list (string * list string);          (* attribute, parameters it is computed from *)
  bc_reads : list string;                           (* attributes read by op_mat *)
  bc_guards : list (string * list string);          (* guard-only parameter, parameters re-assigned under it *)
  bc_copy : list (string * string) }.               (* parameter, attribute handed to it by copy *)

Definition smem (s : string) (l : list string) : bool := existsb (String.eqb s) l.
Definition pmem (p : string * string) (l : list (string * string)) : bool :=
  existsb (fun q => String.eqb (fst p) (fst q) && String.eqb (snd p) (snd q)) l.

Definition relevant (c : bclass) (p : string) : bool :=
  existsb (fun t => smem p (snd t) && smem (fst t) (bc_reads c)) (bc_taints c).

(* copy passes self.a to parameter p, and a stores p *)
Definition forwarded (c : bclass) (p : string) : bool :=
  existsb (fun pa => String.eqb (fst pa) p && pmem (snd pa, p) (bc_stores c)) (bc_copy c).

Definition default_falsy (c : bclass) (p : string) : bool :=
  existsb (fun q => String.eqb (fst (fst q)) p && snd (fst q) && snd q) (bc_params c).

Definition absorbed (c : bclass) (p : string) : bool :=
  default_falsy c p &&
  existsb (fun g => String.eqb (fst g) p && forallb (forwarded c) (snd g)) (bc_guards c).

(* every argument of copy is an attribute that stores exactly the parameter it is handed to *)
Definition args_faithful (c : bclass) : bool :=
  forallb (fun pa => pmem (snd pa, fst pa) (bc_stores c)) (bc_copy c).

(* the quantum numbers are part of the identity of a basis set (sector bookkeeping of every model built through copy):
   a constructor parameter named sigmaqn must be forwarded whether or not op_mat reads it *)
Definition identity_param (p : string) : bool := String.eqb p "sigmaqn".

Definition param_ok (c : bclass) (p : string) : bool :=
  (negb (relevant c p || identity_param p)) || forwarded c p || absorbed c p.

Definition class_ok (c : bclass) : bool :=
  args_faithful c && forallb (fun q => param_ok c (fst (fst q))) (bc_params c).

Definition find_class (n : string) (l : list bclass) : option bclass := find (fun c => String.eqb (bc_name c) n) l.

(* classes for which the obligation is claimed as a theorem (Props/C16.v): every BasisSet subclass of the source.
   [copy_reported_classes] is kept (empty) for classes that would have to be reported by the harness instead. *)
Definition copy_checked_classes : list string :=
  ["BasisSHO"; "BasisHopsBoson"; "BasisMultiElectron"; "BasisMultiElectronVac"; "BasisSimpleElectron"; "BasisHalfSpin";
   "BasisSineDVR"; "BasisDummy"].
Definition copy_reported_classes : list string := [].
Definition all_basis_classes : list string := copy_checked_classes ++ copy_reported_classes.
