(* Step-size controllers of renormalizer/mps/mps.py as state machines over Q (no proofs here).

     adaptive_tdvp (decorator; TDVP-PS, TDVP-PS2, CMF)          mps.py:46    -> tdvp_loop
     adaptive branch of Mps._evolve_prop_and_compress           mps.py:826   -> pc_loop     (Taylor P&C; recursion on the remaining time)
     adaptive branch of Mps._evolve_prop_and_compress_tdrk      mps.py:760   -> tdrk_loop   (general RK)

   The error estimate is abstracted: [est it pos dt] is the enlargement factor p the code computes
   from the distance of two solutions at iteration [it], position [pos] (evolved / remaining time)
   and trial step [dt] -- an ARBITRARY function (the proofs quantify over it).
   Times are rationals; in imaginary time the same machine runs on the imaginary parts (all times
   are then multiples of -i; check_valid_dt enforces a common direction).
   Where the code tests np.allclose / xp.allclose (rtol 1e-5, atol 1e-8) the model tests exact
   equality: RESIDUAL (the code may stop up to 1e-5*|t|+1e-8 short of the target; notes/C09.md).
   Termination is by fuel; out of fuel = None.
   The safeguard constants come from the source (Gen/StepCtlConsts.v, tx/stepctl.py), as does the
   flag telling which variable receives the general-RK trial result.                            *)
From Coq Require Import QArith Qabs List Bool.
Import ListNotations.
From RV Require Import Gen.StepCtlConsts.
Local Open Scope Q_scope.

Definition Qlt_bool (x y : Q) : bool := negb (Qle_bool y x).

(* def min_abs(t1, t2): if abs(t1) < abs(t2): return t1 else: return t2 *)
Definition min_abs (t1 t2 : Q) : Q := if Qlt_bool (Qabs t1) (Qabs t2) then t1 else t2.
(* python max(a, b) / min(a, b) on two numbers: the first argument unless the second is strictly larger / smaller *)
Definition pymax (a b : Q) : Q := if Qlt_bool a b then b else a.
Definition pymin (a b : Q) : Q := if Qlt_bool b a then b else a.

(* one iteration of a controller as seen from outside: tried step, accepted?, position before the try
   (evolved time for tdvp/tdrk, remaining time for pc), guess_dt before the try *)
Record event := { e_dt : Q; e_acc : bool; e_pos : Q; e_guess : Q }.

Definition estimate := nat -> Q -> Q -> Q.

(* result of one controller iteration (the generated step functions of Gen/StepCtlGen.v return it):
   Reject g : trial thrown away, next guess g, same position;  Sub g x : trial accepted, next guess g at position x;
   Final g : trial accepted, the call returns with guess g *)
Inductive outcome := Reject (g : Q) | Sub (g pos : Q) | Final (g : Q).

Definition consE (e : event) (r : option (list event * Q)) : option (list event * Q) :=
  match r with Some (tr, g) => Some (e :: tr, g) | None => None end.

(* ------------------------------------------------------------------ adaptive_tdvp ---------- *)
(* p = (0.75 rtol / (dis/norm + 1e-30)) ** (1/3);  if p < p_min: p = p_min;  if p_max < p: p = p_max *)
Definition tdvp_clamp (p : Q) : Q :=
  let p1 := if Qlt_bool p tdvp_p_min then tdvp_p_min else p in
  if Qlt_bool tdvp_p_max p1 then tdvp_p_max else p1.

Fixpoint tdvp_loop (fuel : nat) (est : estimate) (target : Q) (it : nat) (guess evolved : Q)
  : option (list event * Q) :=
  match fuel with
  | O => None
  | S f =>
    let dt := min_abs guess (target - evolved) in
    let p := tdvp_clamp (est it evolved dt) in
    if Qlt_bool p tdvp_p_restart then
      (* rejected: config.guess_dt = dt * p; continue   (cur_mps unchanged) *)
      consE {| e_dt := dt; e_acc := false; e_pos := evolved; e_guess := guess |}
            (tdvp_loop f est target (S it) (dt * p) evolved)
    else
      (* accepted: evolved_t += dt *)
      let evolved' := evolved + dt in
      if Qeq_bool evolved' target then
        (* normal exit: mps_half2.evolve_config.guess_dt = config.guess_dt *)
        Some ([{| e_dt := dt; e_acc := true; e_pos := evolved; e_guess := guess |}], guess)
      else
        (* config.guess_dt *= p; cur_mps = mps_half2 *)
        consE {| e_dt := dt; e_acc := true; e_pos := evolved; e_guess := guess |}
              (tdvp_loop f est target (S it) (guess * p) evolved')
  end.
Definition tdvp_run fuel est target guess := tdvp_loop fuel est target 0 guess 0.

(* ------------------------------------------------------------------ Taylor P&C -------------- *)
(* state: config.guess_dt and the remaining time evolve_dt of the (recursive) call *)
Fixpoint pc_loop (fuel : nat) (est : estimate) (it : nat) (guess remaining : Q) : option (list event * Q) :=
  match fuel with
  | O => None
  | S f =>
    let dt := min_abs guess remaining in
    let p := est it remaining dt in
    let ev acc := {| e_dt := dt; e_acc := acc; e_pos := remaining; e_guess := guess |} in
    if Qeq_bool dt remaining then
      (* approaches the end *)
      if Qlt_bool p pc_p_restart then
        (* config.guess_dt = dt * max(p_min, p) *)
        consE (ev false) (pc_loop f est (S it) (dt * pymax pc_p_min p) remaining)
      else
        (* normal exit: guess_dt = min_abs(dt * p, config.guess_dt) *)
        Some ([ev true], min_abs (dt * p) guess)
    else
      if Qlt_bool p pc_p_restart then
        (* config.guess_dt *= max(p_min, p) *)
        consE (ev false) (pc_loop f est (S it) (guess * pymax pc_p_min p) remaining)
      else
        (* new_dt = evolve_dt - dt; config.guess_dt *= min(p, p_max); recursive call on new_mps2 *)
        consE (ev true) (pc_loop f est (S it) (guess * pymin p pc_p_max) (remaining - dt))
  end.
Definition pc_run fuel est target guess := pc_loop fuel est 0 guess target.

(* ------------------------------------------------------------------ general RK -------------- *)
Fixpoint tdrk_loop (fuel : nat) (est : estimate) (target : Q) (it : nat) (guess evolved : Q)
  : option (list event * Q) :=
  match fuel with
  | O => None
  | S f =>
    let dt := min_abs guess (target - evolved) in
    let p := est it evolved dt in
    let ev acc := {| e_dt := dt; e_acc := acc; e_pos := evolved; e_guess := guess |} in
    if Qlt_bool p tdrk_p_restart then
      (* guess_dt = dt * max(p_min, p) *)
      consE (ev false) (tdrk_loop f est target (S it) (dt * pymax tdrk_p_min p) evolved)
    else
      if Qeq_bool (dt + evolved) target then
        (* guess_dt = min_abs(dt * p, guess_dt); break *)
        Some ([ev true], min_abs (dt * p) guess)
      else
        (* guess_dt *= min(p, p_max); evolved_dt += dt *)
        consE (ev true) (tdrk_loop f est target (S it) (guess * pymin p tdrk_p_max) (evolved + dt))
  end.
Definition tdrk_run fuel est target guess := tdrk_loop fuel est target 0 guess 0.

(* ------------------------------------------------------------------ observables of a trace -- *)
Definition acc_sum (tr : list event) : Q :=
  fold_right (fun e s => if e_acc e then e_dt e + s else s) 0 tr.
Definition tried_sum (tr : list event) : Q := fold_right (fun e s => e_dt e + s) 0 tr.

(* total time by which the STATE handed to the next iteration / returned has been propagated:
   every accepted step, and -- if the trial result overwrites the carried state before the test
   (carry = true) -- every rejected step as well *)
Definition applied_sum (carry : bool) (tr : list event) : Q := if carry then tried_sum tr else acc_sum tr.

(* x lies between 0 and t (inclusive), on t's side of 0 *)
Definition between0 (x t : Q) : Prop := (0 <= x /\ x <= t) \/ (t <= x /\ x <= 0).
(* same direction (the complement of `evolve_dt * guess_dt < 0` of check_valid_dt) *)
Definition same_dir (g t : Q) : Prop := (0 <= g /\ 0 <= t) \/ (g <= 0 /\ t <= 0).

(* a rejected try is followed by a try of at most c times its size (c = p_restart < 1) *)
Fixpoint shrink_ok (c : Q) (tr : list event) : Prop :=
  match tr with
  | e1 :: ((e2 :: _) as rest) => (e_acc e1 = false -> Qabs (e_dt e2) <= c * Qabs (e_dt e1)) /\ shrink_ok c rest
  | _ => True
  end.

(* executable instance used by the trace correspondence: the estimate is read from a logged list *)
Definition est_of_list (ps : list Q) : estimate := fun it _ _ => nth it ps 0.

(* times at which the general-RK controller samples a time-dependent Hamiltonian callable during one evolve() call:
   every trial step (accepted or not) evaluates  mpo_t(c_i * dt + t0)  for each stage i, where t0 = evolved_dt is the
   time covered by the sub-steps accepted so far (e_pos of the event) *)
Definition sample_times (cs : list Q) (tr : list event) : list Q :=
  flat_map (fun e => map (fun c => c * e_dt e + e_pos e) cs) tr.
