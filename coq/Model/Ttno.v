(* C02 -- executable model of renormalizer/tn/symbolic_ttno.py: construct_symbolic_ttno (graph
   algorithms) and of the one-site decomposition it shares with the chain
   (mps/symbolic_mpo.py: _construct_symbolic_mpo_one_site / _decompose_graph with k physical columns
   and m incoming bonds).  No proofs here (Proofs/TtnoProofs.v).

   table      a list of (row, factor); a row holds one primary-operator index per column.  The
              initial table has one column per basis set in POST-order of the tree
              (`basis = chain(n.basis_sets for n in tn.postorder_list())`).
   loop       for every node in post-order:
                leaf     : prepend a zero column                    (np.concatenate((ta, table)))
                m childs : table = np.roll(table, m, axis=1)        -> [children outputs | own | rest]
                split at  (m or 1) + k columns, decompose, the new bond index is the first column
                table = np.roll(table, -1, axis=1)                  -> output column goes to the end
   witness    the vertex cover actually used at each step, as the list of selected row keys (in the
              order the implementation emits their out-operators) and of selected column keys.
   The layout functions [roll_right] / [roll_left1] are polymorphic: the very same functions move
   table entries ([loop]) and column *names* ([hloop]); the stack discipline is proved about them. *)
From Coq Require Import List Arith Bool ZArith.
Import ListNotations.
From RV Require Import Base.CRing Gen.RootCover Gen.UniqueRows Model.TreeTopo.

(* ------------------------------------------------------------------ column layout *)
Section Layout.
Context {X : Type}.
(* np.roll(a, m, axis=1) on one row: element j moves to (j + m) mod n *)
Definition roll_right (m : nat) (r : list X) : list X :=
  let n := length r in
  let s := Nat.modulo m n in
  skipn (n - s) r ++ firstn (n - s) r.
(* np.roll(a, -1, axis=1) on one row *)
Definition roll_left1 (r : list X) : list X :=
  match r with [] => [] | x :: r' => r' ++ [x] end.
Definition lastn (m : nat) (l : list X) : list X := skipn (length l - m) l.
Definition initn (m : nat) (l : list X) : list X := firstn (length l - m) l.
End Layout.

(* ------------------------------------------------------------------ keys *)
Definition key := list nat.
Fixpoint keqb (a b : key) : bool :=
  match a, b with
  | [], [] => true
  | x :: a', y :: b' => Nat.eqb x y && keqb a' b'
  | _, _ => false
  end.
Definition memb (a : key) (l : list key) : bool := existsb (keqb a) l.
Fixpoint nodupb (l : list key) : bool :=
  match l with [] => true | a :: l' => negb (memb a l') && nodupb l' end.

Fixpoint enum_from {X : Type} (n : nat) (l : list X) : list (nat * X) :=
  match l with [] => [] | x :: r => (n, x) :: enum_from (S n) r end.

Definition wit := (list key * list key)%type.          (* selected row keys, selected column keys *)

(* which columns does a step look at: number of row-part columns *)
Definition rowwidth (m k : nat) : nat := (if Nat.eqb m 0 then 1 else m) + k.

Section Ttno.
Variable R : CRing.
Notation "0" := (r0 R).
Notation "1" := (r1 R).
Infix "+" := (radd R).
Infix "*" := (rmul R).

Definition trow := (key * R)%type.
Definition table := list trow.
Definition optuple := (key * R)%type.                  (* OpTuple(symbol, qn, factor) without qn *)
Definition outop := list optuple.                      (* one out-operator: a formal sum *)
Definition bond := list outop.                         (* out_ops of one node *)

Definition rkey (w : nat) (x : trow) : key := firstn w (fst x).     (* table_row *)
Definition ckey (w : nat) (x : trow) : key := skipn w (fst x).      (* table_col *)

(* ---------------------------------------------------------------- _decompose_graph *)
Definition out_rows (rsel : list key) : bond := map (fun r => [(r, 1)]) rsel.
Definition out_cols (w : nat) (t : table) (rsel csel : list key) : bond :=
  map (fun c => map (fun x => (rkey w x, snd x))
                    (filter (fun x => keqb (ckey w x) c && negb (memb (rkey w x) rsel)) t)) csel.
Definition out_ops (w : nat) (t : table) (rsel csel : list key) : bond :=
  out_rows rsel ++ out_cols w t rsel csel.

Definition new_rows (w : nat) (t : table) (rsel : list key) : table :=
  flat_map (fun ir => map (fun x => (fst ir :: ckey w x, snd x))
                          (filter (fun x => keqb (rkey w x) (snd ir)) t)) (enum_from O rsel).
Definition new_cols (rsel csel : list key) : table :=
  map (fun jc => (fst jc :: snd jc, 1)) (enum_from (length rsel) csel).

Definition one_site (w : nat) (t : table) (rsel csel : list key) : bond * table :=
  (out_ops w t rsel csel, new_rows w t rsel ++ new_cols rsel csel).

(* ---------------------------------------------------------------- the loop body *)
Definition prep (m : nat) (t : table) : table :=
  if Nat.eqb m 0 then map (fun x => (O :: fst x, snd x)) t
  else map (fun x => (roll_right m (fst x), snd x)) t.

Definition step (mk : nat * nat) (t : table) (w : wit) : bond * table :=
  let (ops, t2) := one_site (rowwidth (fst mk) (snd mk)) (prep (fst mk) t) (fst w) (snd w) in
  (ops, map (fun x => (roll_left1 (fst x), snd x)) t2).

Fixpoint loop (nodes : list (nat * nat)) (t : table) (ws : list wit) : list bond * table :=
  match nodes with
  | [] => ([], t)
  | n :: ns =>
      let r := step n t (hd ([], []) ws) in
      let r' := loop ns (snd r) (tl ws) in
      (fst r :: fst r', snd r')
  end.

(* construct_symbolic_ttno: out_ops_list in post-order and the final table *)
Definition construct (tr : tree) (t : table) (ws : list wit) : list bond * table := loop (pmk tr) t ws.

(* every intermediate table, as handed to _construct_symbolic_mpo_one_site (after prep) *)
Fixpoint loop_tables (nodes : list (nat * nat)) (t : table) (ws : list wit) : list table :=
  match nodes with
  | [] => []
  | n :: ns => prep (fst n) t :: loop_tables ns (snd (step n t (hd ([], []) ws))) (tl ws)
  end.

(* ---------------------------------------------------------------- admissible witnesses *)
Definition coversb (w : nat) (t : table) (rsel csel : list key) : bool :=
  forallb (fun x => memb (rkey w x) rsel || memb (ckey w x) csel) t.
(* selected columns are columns of the table (they are indices into term_col) *)
Definition colsinb (w : nat) (t : table) (csel : list key) : bool :=
  forallb (fun c => existsb (fun x => keqb (ckey w x) c) t) csel.
Definition valid_step (mk : nat * nat) (t : table) (w : wit) : bool :=
  let t1 := prep (fst mk) t in
  let wd := rowwidth (fst mk) (snd mk) in
  nodupb (fst w) && nodupb (snd w) && coversb wd t1 (fst w) (snd w) && colsinb wd t1 (snd w).
Fixpoint valid_run (nodes : list (nat * nat)) (t : table) (ws : list wit) : bool :=
  match nodes with
  | [] => true
  | n :: ns => valid_step n t (hd ([], []) ws) && valid_run ns (snd (step n t (hd ([], []) ws))) (tl ws)
  end.

(* ---------------------------------------------------------------- denotation *)
Fixpoint lsum {X : Type} (l : list X) (f : X -> R) : R :=
  match l with [] => 0 | x :: r => f x + lsum r f end.
Definition kdelta (a b : key) : R := if keqb a b then 1 else 0.

(* coefficient function of a term table: the operator  sum_rows factor * (x) ops  as a function of
   the operator string s (one primary-operator index per physical column) *)
Definition coeff (t : table) (s : key) : R := lsum t (fun x => snd x * kdelta (fst x) s).

Definition den_outop (D : key -> R) (o : outop) : R := lsum o (fun p => snd p * D (fst p)).

(* children: child i is entered through bond index os_i and sees its own slice of s; bs holds the
   bonds of all the children's subtrees in post-order *)
Definition den_forest (D : tree -> list bond -> nat -> key -> R) :=
  fix go (cs : list tree) (bs : list bond) (os : list nat) (s : key) : R :=
    match cs, os with
    | [], [] => 1
    | c :: cs', o :: os' =>
        D c (firstn (size c) bs) o (firstn (width c) s) * go cs' (skipn (size c) bs) os' (skipn (width c) s)
    | _, _ => 0
    end.

(* [den t bs j s]: coefficient of the operator string s (over the physical columns of the subtree t,
   in post-order) in the operator carried by bond index j above t; bs = the out_ops of the subtree's
   nodes in post-order (the last one is t's own).  This is compose_symbolic_mo_general read as a
   function: symbol[:-k] indexes the children's bonds (ignored at a leaf), symbol[-k:] are the k
   primary operators of the node.                                                               *)
Fixpoint den (t : tree) (bs : list bond) (j : nat) (s : key) : R :=
  match t with
  | Node k ch =>
      let W := list_sum (map width ch) in
      den_outop (fun sym =>
        match ch with
        | [] => kdelta (skipn 1 sym) s
        | _ => den_forest den ch (removelast bs) (firstn (length ch) sym) (firstn W s)
               * kdelta (skipn (length ch) sym) (skipn W s)
        end) (nth j (last bs []) [])
  end.

(* the operator of the whole TTNO: the root tensor's parent bond has the single index 0 *)
Definition ttno_coeff (tr : tree) (bs : list bond) (s : key) : R := den tr bs O s.

(* ---------------------------------------------------------------- _decompose_qr, by witness *)
(* The factors scipy returns are a witness: out-operator l = sum_i q[i,l] * (row key i), the new table
   holds (l :: column key k) with factor r2[l,k] = r[l, argsort(p)[k]] for the entries kept.  The
   witness is given sparsely, exactly as the implementation emits it; [qrows]/[qcols] list the row /
   column keys it may mention (term_row / term_col).  Admissibility (Proofs: qr_valid) is the exact
   factorisation  Gamma = q . r2  over the ring.                                                    *)
Definition rentry := (nat * key * R)%type.
Inductive swit :=
| WG (w : wit)                                                      (* a vertex cover *)
| WQ (qrows qcols : list key) (q : bond) (r : list rentry).         (* a factorisation *)
Definition qr_table (r : list rentry) : table := map (fun e => (fst (fst e) :: snd (fst e), snd e)) r.
Definition sstep (mk : nat * nat) (t : table) (sw : swit) : bond * table :=
  match sw with
  | WG w => step mk t w
  | WQ _ _ q r => (q, map (fun x => (roll_left1 (fst x), snd x)) (qr_table r))
  end.
Definition swit0 : swit := WG ([], []).
Fixpoint sloop (nodes : list (nat * nat)) (t : table) (sws : list swit) : list bond * table :=
  match nodes with
  | [] => ([], t)
  | n :: ns =>
      let r := sstep n t (hd swit0 sws) in
      let r' := sloop ns (snd r) (tl sws) in
      (fst r :: fst r', snd r')
  end.
Definition sconstruct (tr : tree) (t : table) (sws : list swit) : list bond * table := sloop (pmk tr) t sws.
Fixpoint sloop_tables (nodes : list (nat * nat)) (t : table) (sws : list swit) : list table :=
  match nodes with
  | [] => []
  | n :: ns => prep (fst n) t :: sloop_tables ns (snd (sstep n t (hd swit0 sws))) (tl sws)
  end.
(* the two matrices the factorisation identity is about, entry (rk, ck) *)
Definition gamma_entry (w : nat) (t : table) (rk ck : key) : R :=
  lsum t (fun x => if keqb (rkey w x) rk && keqb (ckey w x) ck then snd x else 0).
Definition qr_entry (q : bond) (r : list rentry) (rk ck : key) : R :=
  lsum r (fun e => if keqb (snd (fst e)) ck
                   then snd e * lsum (nth (fst (fst e)) q []) (fun p => if keqb (fst p) rk then snd p else 0)
                   else 0).

(* every selected column keeps at least one row that is not selected itself: its complementary
   operator is not empty (`out_op[0].qn` exists) *)
Definition nonredb (w : nat) (t : table) (rsel csel : list key) : bool :=
  forallb (fun c => existsb (fun x => keqb (ckey w x) c && negb (memb (rkey w x) rsel)) t) csel.
Fixpoint nonred_run (nodes : list (nat * nat)) (t : table) (ws : list wit) : bool :=
  match nodes with
  | [] => true
  | n :: ns =>
      nonredb (rowwidth (fst n) (snd n)) (prep (fst n) t) (fst (hd ([], []) ws)) (snd (hd ([], []) ws))
      && nonred_run ns (snd (step n t (hd ([], []) ws))) (tl ws)
  end.

(* ---------------------------------------------------------------- the chain (MPO) for comparison *)
(* mps/symbolic_mpo.py: _construct_symbolic_mpo -- sentinel column 0 in front and behind, sites left
   to right, one incoming bond, k = 1; the new bond index stays in the first column (no rolling) *)
Definition mstep (t : table) (w : wit) : bond * table := one_site 2 t (fst w) (snd w).
Fixpoint mloop (n : nat) (t : table) (ws : list wit) : list bond * table :=
  match n with
  | O => ([], t)
  | S n' =>
      let r := mstep t (hd ([], []) ws) in
      let r' := mloop n' (snd r) (tl ws) in
      (fst r :: fst r', snd r')
  end.
Definition mvalid_step (t : table) (w : wit) : bool :=
  nodupb (fst w) && nodupb (snd w) && coversb 2 t (fst w) (snd w) && colsinb 2 t (snd w).
Fixpoint mvalid_run (n : nat) (t : table) (ws : list wit) : bool :=
  match n with
  | O => true
  | S n' => mvalid_step t (hd ([], []) ws) && mvalid_run n' (snd (mstep t (hd ([], []) ws))) (tl ws)
  end.
Definition mpo_table (t : table) : table := map (fun x => (O :: fst x ++ [O], snd x)) t.
(* compose_symbolic_mo read as a function: symbol = [incoming bond index; primary operator] *)
Definition msym (D : nat -> R) (p : nat) (sym : key) : R :=
  match sym with
  | [a; q] => D a * (if Nat.eqb q p then 1 else 0)
  | _ => 0
  end.
Fixpoint mden_l (bs : list bond) (D : nat -> R) (s : key) : nat -> R :=
  match bs, s with
  | [], [] => D
  | b :: bs', p :: s' => mden_l bs' (fun j => den_outop (msym D p) (nth j b [])) s'
  | _, _ => fun _ => 0
  end.
Definition mpo_coeff (bs : list bond) (s : key) : R :=
  mden_l bs (fun j => if Nat.eqb j 0 then 1 else 0) s O.

End Ttno.

Arguments lsum {R X} l f.
Arguments one_site {R} w t rsel csel.
Arguments prep {R} m t.
Arguments step {R} mk t w.
Arguments loop {R} nodes t ws.
Arguments loop_tables {R} nodes t ws.
Arguments construct {R} tr t ws.
Arguments valid_step {R} mk t w.
Arguments valid_run {R} nodes t ws.
Arguments coeff {R} t s.
Arguments den {R} t bs j s.
Arguments ttno_coeff {R} tr bs s.
Arguments sstep {R} mk t sw.
Arguments sloop {R} nodes t sws.
Arguments sconstruct {R} tr t sws.
Arguments sloop_tables {R} nodes t sws.
Arguments WG {R} w.
Arguments nonred_run {R} nodes t ws.
Arguments mloop {R} n t ws.
Arguments mvalid_run {R} n t ws.
Arguments mpo_table {R} t.
Arguments mpo_coeff {R} bs s.



(* ------------------------------------------------------------------ the unique-rows step *)
(* What `np.unique(table_row, axis=0, return_inverse=True)` returns: the distinct rows in lexicographic
   order and, for every row, its position among them.  The decomposition works on these positions
   only; it is correct because a position determines the row (Proofs: row_index_injective).  The
   column part is numbered by first occurrence (dict keyed by the row's bytes).                     *)
Fixpoint key_ltb (a b : key) : bool :=
  match a, b with
  | [], [] => false
  | [], _ :: _ => true
  | _ :: _, [] => false
  | x :: a', y :: b' => if Nat.ltb x y then true else if Nat.ltb y x then false else key_ltb a' b'
  end.
Fixpoint insert_key (k : key) (l : list key) : list key :=
  match l with
  | [] => [k]
  | h :: t => if keqb k h then l else if key_ltb k h then k :: l else h :: insert_key k t
  end.
Definition term_rows (keys : list key) : list key := fold_right insert_key [] keys.
Fixpoint index_of (k : key) (l : list key) : nat :=
  match l with [] => O | h :: t => if keqb k h then O else S (index_of k t) end.
Definition row_inverse (keys : list key) : list nat := map (fun k => index_of k (term_rows keys)) keys.
Definition term_cols (keys : list key) : list key :=
  fold_left (fun acc k => if memb k acc then acc else acc ++ [k]) keys [].
Definition col_inverse (keys : list key) : list nat := map (fun k => index_of k (term_cols keys)) keys.
(* the specification a row-index method stands for; only the call found in the source has one *)
Definition row_index_spec (m : row_index_method) : option (list key -> list key * list nat) :=
  match m with
  | NpUniqueRows O true => Some (fun keys => (term_rows keys, row_inverse keys))
  | _ => None
  end.

(* ------------------------------------------------------------------ the cover at the root *)
(* At the root every row has an empty column part: one unique column, n >= 1 unique rows, every row
   adjacent to the column.  What _decompose_graph / bipartite_vertex_cover return there, in terms of
   the GENERATED orientation rule (Gen/RootCover.v): without a free U vertex the Koenig loop never
   runs, every U vertex is selected and no V vertex. *)
Definition konig_no_free (nU nV : nat) (matchV : list (option nat)) : option (list bool * list bool) :=
  if konig_loop_runs (konig_free_U nU matchV) then None
  else Some (konig_result (konig_init nU) (konig_init nV)).
Definition root_cover_bools (nrows : nat) (matchV : list (option nat)) : option (list bool * list bool) :=
  let ru := rows_are_U (Z.of_nat nrows) 1%Z in
  if ru then None            (* rows as U side: not what happens at a root with >= 1 rows *)
  else option_map (fun uv => unpack_cover ru (fst uv) (snd uv)) (konig_no_free 1 nrows matchV).
Fixpoint select {X : Type} (bs : list bool) (xs : list X) : list X :=
  match bs, xs with
  | b :: bs', x :: xs' => if b then x :: select bs' xs' else select bs' xs'
  | _, _ => []
  end.
(* row_select / col_select as keys: term_row = rowkeys, term_col = [[]] *)
Definition root_witness (rowkeys : list key) (matchV : list (option nat)) : option wit :=
  option_map (fun rc => (select (fst rc) rowkeys, select (snd rc) [[]])) (root_cover_bools (length rowkeys) matchV).


(* ------------------------------------------------------------------ bond labels (quantum numbers) *)
(* one component of the quantum number: pq i = charge of primary operator i.  [lab t bs j] is the
   label `_compute_qn` gives out-operator j of the subtree's root: the charge of its FIRST summand =
   the labels of the addressed children bonds + the charges of the node's own primary operators. *)
Section Charges.
Variable R : CRing.
Variable pq : nat -> Z.
Definition chg (k : key) : Z := fold_right (fun i a => (pq i + a)%Z) 0%Z k.
Definition lab_forest (L : tree -> list (bond R) -> nat -> Z) :=
  fix go (cs : list tree) (bs : list (bond R)) (os : list nat) : Z :=
    match cs, os with
    | c :: cs', o :: os' => (L c (firstn (size c) bs) o + go cs' (skipn (size c) bs) os')%Z
    | _, _ => 0%Z
    end.
Definition sym_charge (L : tree -> list (bond R) -> nat -> Z) (ch : list tree) (bs : list (bond R)) (sym : key) : Z :=
  match ch with
  | [] => chg (skipn 1 sym)
  | _ => (lab_forest L ch (removelast bs) (firstn (length ch) sym) + chg (skipn (length ch) sym))%Z
  end.
Fixpoint lab (t : tree) (bs : list (bond R)) (j : nat) : Z :=
  match t with
  | Node k ch =>
      match nth j (last bs []) [] with
      | [] => 0%Z
      | p :: _ => sym_charge lab ch bs (fst p)
      end
  end.
Definition symchg (t : tree) (bs : list (bond R)) (sym : key) : Z := sym_charge lab (children t) bs sym.
(* all labels of the subtree's bonds, post-order (= mpoqn, one component) *)
Definition labs_forest (F : tree -> list (bond R) -> list (list Z)) :=
  fix go (cs : list tree) (bs : list (bond R)) : list (list Z) :=
    match cs with [] => [] | c :: cs' => F c (firstn (size c) bs) ++ go cs' (skipn (size c) bs) end.
Fixpoint all_labs (t : tree) (bs : list (bond R)) : list (list Z) :=
  match t with
  | Node k ch => labs_forest all_labs ch (removelast bs) ++ [map (lab t bs) (seq 0 (length (last bs [])))]
  end.
(* are all summands of every out-operator of the subtree equally charged? (then `first` is immaterial) *)
Definition cons_forest (P : tree -> list (bond R) -> bool) :=
  fix go (cs : list tree) (bs : list (bond R)) : bool :=
    match cs with [] => true | c :: cs' => P c (firstn (size c) bs) && go cs' (skipn (size c) bs) end.
Fixpoint consistentb (t : tree) (bs : list (bond R)) : bool :=
  match t with
  | Node k ch =>
      forallb (fun j => forallb (fun p => Z.eqb (symchg t bs (fst p)) (lab t bs j)) (nth j (last bs []) []))
              (seq 0 (length (last bs [])))
      && cons_forest consistentb ch (removelast bs)
  end.
End Charges.

(* the shape of BasisTree.linear on n+1 basis sets *)
Fixpoint chain_tree (n : nat) : tree := match n with O => Node 1 [] | S n' => Node 1 [chain_tree n'] end.

(* ------------------------------------------------------------------ column names: the bookkeeping *)
(* the same layout operations applied to a header of column names instead of table entries *)
Inductive col := Phys (node : nat) (i : nat)     (* i-th basis set of the node at post-order position [node] *)
               | Out (node : nat)                (* bond index produced by that node *)
               | Zero.                           (* the zero column prepended at a leaf *)

Record hlog := { consumed : list col; remaining : list col }.

Definition hstep (idx : nat) (mk : nat * nat) (h : list col) : hlog * list col :=
  let h1 := if Nat.eqb (fst mk) 0 then Zero :: h else roll_right (fst mk) h in
  let w := rowwidth (fst mk) (snd mk) in
  ({| consumed := firstn w h1; remaining := skipn w h1 |}, roll_left1 (Out idx :: skipn w h1)).

Fixpoint hloop (idx : nat) (nodes : list (nat * nat)) (h : list col) : list hlog * list col :=
  match nodes with
  | [] => ([], h)
  | n :: ns =>
      let r := hstep idx n h in
      let r' := hloop (S idx) ns (snd r) in
      (fst r :: fst r', snd r')
  end.

Definition own_cols (idx k : nat) : list col := map (Phys idx) (seq 0 k).
(* the physical columns of a subtree whose first post-order position is [base], in post-order *)
Definition phys_forest_gen (P : nat -> tree -> list col) :=
  fix go (b : nat) (cs : list tree) : list col :=
    match cs with [] => [] | c :: cs' => P b c ++ go (b + size c) cs' end.
Fixpoint phys_cols (base : nat) (t : tree) : list col :=
  match t with
  | Node k ch => phys_forest_gen phys_cols base ch ++ own_cols (base + list_sum (map size ch)) k
  end.
Definition phys_forest : nat -> list tree -> list col := phys_forest_gen phys_cols.

(* post-order positions of the roots of a list of sibling subtrees starting at [base] *)
Fixpoint root_positions (base : nat) (cs : list tree) : list nat :=
  match cs with [] => [] | c :: cs' => (base + size c - 1) :: root_positions (base + size c) cs' end.

(* What the stack discipline says the log must be.  [rest] = whatever follows the subtree's own
   columns in the header when its first node is reached: the physical columns of everything still to
   come (in post-order) followed by the outputs of completed subtrees waiting for their parent.
   For the j-th child the header continues with: the later siblings' physical columns, the parent's
   own columns, the parent's [rest], and the outputs of the earlier siblings ([done]).
   At the node itself: the children's outputs in child order (or the zero column at a leaf), then
   its own k physical columns are consumed; [rest] remains.                                        *)
Definition expected_forest_gen (E : nat -> tree -> list col -> list hlog) (own rest : list col) :=
  fix go (b : nat) (cs : list tree) (done : list col) : list hlog :=
    match cs with
    | [] => []
    | c :: cs' => E b c (phys_forest (b + size c) cs' ++ own ++ rest ++ done)
                  ++ go (b + size c) cs' (done ++ [Out (b + size c - 1)])
    end.
Fixpoint expected (base : nat) (t : tree) (rest : list col) : list hlog :=
  match t with
  | Node k ch =>
      let own := own_cols (base + list_sum (map size ch)) k in
      expected_forest_gen expected own rest base ch []
      ++ [ {| consumed := (match ch with [] => [Zero] | _ => map Out (root_positions base ch) end) ++ own;
              remaining := rest |} ]
  end.
Definition expected_forest := expected_forest_gen expected.

(* ------------------------------------------------------------------ quantum numbers (model only) *)
Definition qvec := list Z.
Definition qadd (a b : qvec) : qvec := map (fun p => (fst p + snd p)%Z) (combine a b).
Definition qzero (n : nat) : qvec := repeat 0%Z n.
(* _compute_qn for one symbol: children bonds' labels (first operator of the addressed out-op) plus
   the primary operators' qn *)
Definition sym_qn (qs : nat) (pqn : list qvec) (inq : list (list qvec)) (m : nat) (sym : key) : qvec :=
  let a := fold_left (fun acc p => qadd acc (nth (snd p) (fst p) (qzero qs))) (combine inq (firstn m sym)) (qzero qs) in
  fold_left (fun acc i => qadd acc (nth i pqn (qzero qs))) (skipn m sym) a.
(* post-order evaluation with a stack of the completed subtrees' bond labels (top = last).  The label
   of an out-operator is the qn of its FIRST summand (`out_op[0].qn`); which summand comes first
   depends on scipy's sparse ordering, so the first symbols are taken as a witness [firsts] (one key
   per out-operator; the harness checks that it is a summand of the model's out-operator).  For term
   lists with a common total charge all summands have the same qn and the choice is immaterial. *)
Fixpoint qn_loop (qs : nat) (pqn : list qvec) (nodes : list (nat * nat)) (firsts : list (list key)) (stack : list (list qvec))
  : list (list qvec) :=
  match nodes, firsts with
  | n :: ns, f :: fs' =>
      let m := fst n in
      let inq := if Nat.eqb m 0 then [[qzero qs]] else lastn m stack in
      let q := map (sym_qn qs pqn inq (if Nat.eqb m 0 then 1 else m)) f in
      q :: qn_loop qs pqn ns fs' (initn m stack ++ [q])
  | _, _ => []
  end.

(* ------------------------------------------------------------------ flat integer encodings (exchange
   format with the harness; scalars = Z) *)
Section Enc.
Local Open Scope Z_scope.
Definition Zn (n : nat) : Z := Z.of_nat n.
Definition enc_key (k : key) : list Z := Zn (length k) :: map Zn k.
Definition enc_pair (p : key * Z) : list Z := enc_key (fst p) ++ [snd p].
Definition enc_table (t : table ZRing) : list Z := Zn (length t) :: flat_map enc_pair t.
Definition enc_outop (o : outop ZRing) : list Z := Zn (length o) :: flat_map enc_pair o.
Definition enc_bond (b : bond ZRing) : list Z := Zn (length b) :: flat_map enc_outop b.
Definition enc_bonds (bs : list (bond ZRing)) : list Z := Zn (length bs) :: flat_map enc_bond bs.
Definition enc_col (c : col) : list Z :=
  match c with Zero => [0; 0; 0] | Phys n i => [1; Zn n; Zn i] | Out n => [2; Zn n; 0] end.
Definition enc_cols (l : list col) : list Z := Zn (length l) :: flat_map enc_col l.
Definition enc_hlog (h : hlog) : list Z := enc_cols (consumed h) ++ enc_cols (remaining h).
Definition enc_qns (q : list (list qvec)) : list Z :=
  Zn (length q) :: flat_map (fun b => Zn (length b) :: flat_map (fun v => Zn (length v) :: v) b) q.
Definition b2z (b : bool) : Z := if b then 1 else 0.

Definition col_eqb (a b : col) : bool :=
  match a, b with
  | Zero, Zero => true
  | Phys n i, Phys n' i' => Nat.eqb n n' && Nat.eqb i i'
  | Out n, Out n' => Nat.eqb n n'
  | _, _ => false
  end.
Fixpoint cols_eqb (a b : list col) : bool :=
  match a, b with
  | [], [] => true
  | x :: a', y :: b' => col_eqb x y && cols_eqb a' b'
  | _, _ => false
  end.
Fixpoint hlogs_eqb (a b : list hlog) : bool :=
  match a, b with
  | [], [] => true
  | x :: a', y :: b' => cols_eqb (consumed x) (consumed y) && cols_eqb (remaining x) (remaining y) && hlogs_eqb a' b'
  | _, _ => false
  end.

(* everything the correspondence compares for one case *)
Definition run_case (tr : tree) (t : table ZRing) (ws : list wit) : list Z :=
  let r := construct tr t ws in
  b2z (valid_run (pmk tr) t ws) :: enc_bonds (fst r) ++ enc_table (snd r).
Definition run_tables (tr : tree) (t : table ZRing) (ws : list wit) : list Z :=
  flat_map enc_table (loop_tables (pmk tr) t ws).
Definition run_header (tr : tree) : list Z :=
  let r := hloop 0 (pmk tr) (phys_cols 0 tr) in
  b2z (hlogs_eqb (fst r) (expected 0 tr [])) :: flat_map enc_hlog (fst r) ++ enc_cols (snd r).
Definition run_qn (qs : nat) (pqn : list qvec) (tr : tree) (firsts : list (list key)) : list Z :=
  enc_qns (qn_loop qs pqn (pmk tr) firsts []).
(* the unique-rows step at every node of a run: term_row as np.unique must return it, and the inverse *)
Definition run_unique (tr : tree) (t : table ZRing) (ws : list wit) : list Z :=
  flat_map (fun nt =>
     let keys := map (fun x => rkey ZRing (rowwidth (fst (fst nt)) (snd (fst nt))) x) (snd nt) in
     Zn (length (term_rows keys)) :: flat_map enc_key (term_rows keys))
   (combine (pmk tr) (loop_tables (pmk tr) t ws)).
(* layout of a run with factorisation witnesses (coefficients are not compared here) *)
Definition run_stables (tr : tree) (t : table ZRing) (sws : list (swit ZRing)) : list Z :=
  flat_map enc_table (sloop_tables (pmk tr) t sws) ++ enc_table (snd (sconstruct tr t sws)).
(* bond labels, one component: consistency flag, no-redundant-column flag, then all labels *)
Definition run_labels (pqc : list Z) (tr : tree) (t : table ZRing) (ws : list wit) : list Z :=
  let pq := fun i => nth i pqc 0%Z in
  let bs := fst (construct tr t ws) in
  b2z (consistentb ZRing pq tr bs) :: b2z (nonred_run (pmk tr) t ws) ::
  flat_map (fun b => Zn (length b) :: b) (all_labs ZRing pq tr bs).
Definition run_coeff (tr : tree) (bs : list (bond ZRing)) (t : table ZRing) (strs : list key) : list Z :=
  flat_map (fun s => [ttno_coeff tr bs s; coeff t s]) strs.
End Enc.
