(* C07 -- environments of the bra / operator / ket sandwich and the closing of the expectation value.
   Source: renormalizer/mps/lib.py  contract_one_site, Environ._construct;
           renormalizer/mps/mps.py  Mps.expectation (+ _expectation_path), MpDm._expectation_path,
           calc_1site_rdm, calc_2site_rdm, calc_edof_rdm.
   An environment is a rank-3 tensor  E a b c  with a = bond of the tensors passed as `ms_conj`
   (NOT conjugated by contract_one_site: they enter bilinearly), b = operator bond, c = ket bond.
   State sites are rank-3 (Mps: l,p,r) or rank-4 (MpDm: l,p,ancilla,r; the ancilla of bra and ket is
   contracted).  A contraction  "abc, adf, bdeg, ceh -> fgh"  is the sum over all repeated indices; the
   pairwise order of the einsum path is an evaluation order of that sum (ring axioms).
   The *t versions tabulate every intermediate environment (as NumPy arrays do); they are what the
   correspondence executes; Proofs/EnvProofs.v shows they agree with the plain versions in range.
   No proofs here.                                                                                     *)
From Coq Require Import List Arith ZArith.
Import ListNotations.
From RV Require Import Base.CRing Base.BigSum Model.Chain Model.FreqCache.

Section Env.
Variable R : CRing.
Notation "0" := (r0 R).
Notation "1" := (r1 R).
Infix "+" := (radd R).
Infix "*" := (rmul R).

Definition E3 := nat -> nat -> nat -> R.

Definition sum3 (da db dc : nat) (F : nat -> nat -> nat -> R) : R :=
  sumn da (fun a => sumn db (fun b => sumn dc (fun c => F a b c))).

(* xp.ones((1,1,1)) *)
Definition sentinel : E3 := of3 [[[1]]].

Definition retab (da db dc : nat) (E : E3) : E3 := of3 (tab3 da db dc E).

(* l_environ.flatten() @ r_environ.flatten() *)
Definition dot3 (da db dc : nat) (L Rt : E3) : R := sum3 da db dc (fun a b c => L a b c * Rt a b c).

(* ------------------------------------------------------------------ contract_one_site, four cases *)
(* domain "L", ms.ndim == 3 :  "abc, adf, bdeg, ceh -> fgh"   (operands: environ, ms_conj, mo, ms) *)
Definition cos_L3 (da db dc p : nat) (env : E3) (cj : T3 R) (mo : T4 R) (ms : T3 R) : E3 :=
  fun f g h => sum3 da db dc (fun a b c => sumn p (fun d => sumn p (fun e =>
     env a b c * cj a d f * mo b d e g * ms c e h))).
(* domain "L", ms.ndim == 4 :  "abc, adlf, bdeg, celh -> fgh" *)
Definition cos_L4 (da db dc p q : nat) (env : E3) (cj : T4 R) (mo : T4 R) (ms : T4 R) : E3 :=
  fun f g h => sum3 da db dc (fun a b c => sumn p (fun d => sumn p (fun e => sumn q (fun l =>
     env a b c * cj a d l f * mo b d e g * ms c e l h)))).
(* domain "R", ms.ndim == 3 :  "fda, abc, gdeb, hec -> fgh"   (operands: ms_conj, environ, mo, ms) *)
Definition cos_R3 (da db dc p : nat) (env : E3) (cj : T3 R) (mo : T4 R) (ms : T3 R) : E3 :=
  fun f g h => sum3 da db dc (fun a b c => sumn p (fun d => sumn p (fun e =>
     cj f d a * env a b c * mo g d e b * ms h e c))).
(* domain "R", ms.ndim == 4 :  "fdla, abc, gdeb, helc -> fgh" *)
Definition cos_R4 (da db dc p q : nat) (env : E3) (cj : T4 R) (mo : T4 R) (ms : T4 R) : E3 :=
  fun f g h => sum3 da db dc (fun a b c => sumn p (fun d => sumn p (fun e => sumn q (fun l =>
     cj f d l a * env a b c * mo g d e b * ms h e l c)))).

(* ------------------------------------------------------------------------------------------ sites *)
(* one site of the sandwich: physical dimension, RIGHT bond dimensions of bra / operator / ket, tensors.
   The left dimensions are the right dimensions of the previous site (1,1,1 at the left end). *)
Record site3 := mk3 { p3 : nat; a3 : nat; b3 : nat; c3 : nat; bra3 : T3 R; op3 : T4 R; ket3 : T3 R }.
Record site4 := mk4 { p4 : nat; q4 : nat; a4 : nat; b4 : nat; c4 : nat; bra4 : T4 R; op4 : T4 R; ket4 : T4 R }.

(* a rank-3 site seen as a rank-4 site with a one-dimensional ancilla *)
Definition lift3 (s : site3) : site4 :=
  mk4 (p3 s) 1 (a3 s) (b3 s) (c3 s) (fun l p _ r => bra3 s l p r) (op3 s) (fun l p _ r => ket3 s l p r).

Definition stepL3 (da db dc : nat) (E : E3) (s : site3) : E3 := cos_L3 da db dc (p3 s) E (bra3 s) (op3 s) (ket3 s).
Definition stepL4 (da db dc : nat) (E : E3) (s : site4) : E3 := cos_L4 da db dc (p4 s) (q4 s) E (bra4 s) (op4 s) (ket4 s).
Definition stepR3 (s : site3) (E : E3) : E3 := cos_R3 (a3 s) (b3 s) (c3 s) (p3 s) E (bra3 s) (op3 s) (ket3 s).
Definition stepR4 (s : site4) (E : E3) : E3 := cos_R4 (a4 s) (b4 s) (c4 s) (p4 s) (q4 s) E (bra4 s) (op4 s) (ket4 s).

(* Environ._construct, domain "L": fold over the sites from the left, starting from an environment of
   dimensions (da,db,dc);  domain "R": from the right end. *)
Fixpoint envL3 (da db dc : nat) (E : E3) (ss : list site3) : E3 :=
  match ss with [] => E | s :: r => envL3 (a3 s) (b3 s) (c3 s) (stepL3 da db dc E s) r end.
Fixpoint envL4 (da db dc : nat) (E : E3) (ss : list site4) : E3 :=
  match ss with [] => E | s :: r => envL4 (a4 s) (b4 s) (c4 s) (stepL4 da db dc E s) r end.
Fixpoint envR3 (ss : list site3) (E : E3) : E3 :=
  match ss with [] => E | s :: r => stepR3 s (envR3 r E) end.
Fixpoint envR4 (ss : list site4) (E : E3) : E3 :=
  match ss with [] => E | s :: r => stepR4 s (envR4 r E) end.

(* tabulating versions (da db dc: dimensions of the LEFT bonds of the first site) *)
Fixpoint envL3t (da db dc : nat) (E : E3) (ss : list site3) : E3 :=
  match ss with [] => E | s :: r => envL3t (a3 s) (b3 s) (c3 s) (retab (a3 s) (b3 s) (c3 s) (stepL3 da db dc E s)) r end.
Fixpoint envL4t (da db dc : nat) (E : E3) (ss : list site4) : E3 :=
  match ss with [] => E | s :: r => envL4t (a4 s) (b4 s) (c4 s) (retab (a4 s) (b4 s) (c4 s) (stepL4 da db dc E s)) r end.
Fixpoint envR3t (da db dc : nat) (ss : list site3) (E : E3) : E3 :=
  match ss with [] => E | s :: r => retab da db dc (stepR3 s (envR3t (a3 s) (b3 s) (c3 s) r E)) end.
Fixpoint envR4t (da db dc : nat) (ss : list site4) (E : E3) : E3 :=
  match ss with [] => E | s :: r => retab da db dc (stepR4 s (envR4t (a4 s) (b4 s) (c4 s) r E)) end.

(* ------------------------------------------------------------------------------ Mps.expectation *)
(* environ = Environ(self, mpo, "R", mps_conj=self_conj); l = ones((1,1,1)); r = environ.read("R", 1);
   val = contract(l, self[0], mpo[0], self_conj[0], r)   -- path "abc,cfh,bdfg,ade,egh->" (Mps),
   "abc,cgej,bdgh,adef,fhj->" (MpDm): the left sentinel, site 0 and the right environment of site 1.
   The chain must have at least one site (the code indexes self[0]). *)
Definition expectation3 (ss : list site3) : R :=
  match ss with
  | [] => 0
  | s :: r => dot3 (a3 s) (b3 s) (c3 s) (stepL3 1 1 1 sentinel s) (envR3 r sentinel)
  end.
Definition expectation4 (ss : list site4) : R :=
  match ss with
  | [] => 0
  | s :: r => dot3 (a4 s) (b4 s) (c4 s) (stepL4 1 1 1 sentinel s) (envR4 r sentinel)
  end.
Definition expectation3t (ss : list site3) : R :=
  match ss with
  | [] => 0
  | s :: r => dot3 (a3 s) (b3 s) (c3 s) (retab (a3 s) (b3 s) (c3 s) (stepL3 1 1 1 sentinel s)) (envR3t (a3 s) (b3 s) (c3 s) r sentinel)
  end.
Definition expectation4t (ss : list site4) : R :=
  match ss with
  | [] => 0
  | s :: r => dot3 (a4 s) (b4 s) (c4 s) (retab (a4 s) (b4 s) (c4 s) (stepL4 1 1 1 sentinel s)) (envR4t (a4 s) (b4 s) (c4 s) r sentinel)
  end.

(* the three chains of a sandwich, in the format of Model/Chain.v *)
Definition bras3 (ss : list site3) : list (nat * T3 R) := map (fun s => (a3 s, bra3 s)) ss.
Definition ops3 (ss : list site3) : list (nat * T4 R) := map (fun s => (b3 s, op3 s)) ss.
Definition kets3 (ss : list site3) : list (nat * T3 R) := map (fun s => (c3 s, ket3 s)) ss.
Definition bras4 (ss : list site4) : list (nat * T4 R) := map (fun s => (a4 s, bra4 s)) ss.
Definition ops4 (ss : list site4) : list (nat * T4 R) := map (fun s => (b4 s, op4 s)) ss.
Definition kets4 (ss : list site4) : list (nat * T4 R) := map (fun s => (c4 s, ket4 s)) ss.

(* assembling a sandwich from three chains and the physical dimensions (what the harness sends) *)
Fixpoint zip3 (ps : list nat) (bra : list (nat * T3 R)) (op : list (nat * T4 R)) (ket : list (nat * T3 R)) : list site3 :=
  match ps, bra, op, ket with
  | p :: ps', (da, x) :: bra', (db, o) :: op', (dc, k) :: ket' => mk3 p da db dc x o k :: zip3 ps' bra' op' ket'
  | _, _, _, _ => []
  end.
Fixpoint zip4 (ps qs : list nat) (bra : list (nat * T4 R)) (op : list (nat * T4 R)) (ket : list (nat * T4 R)) : list site4 :=
  match ps, qs, bra, op, ket with
  | p :: ps', q :: qs', (da, x) :: bra', (db, o) :: op', (dc, k) :: ket' => mk4 p q da db dc x o k :: zip4 ps' qs' bra' op' ket'
  | _, _, _, _, _ => []
  end.

(* ------------------------------------------------------------------- reduced density matrices *)
(* Mps.conj(): entrywise conjugation of every site *)
Definition cj3 (t : T3 R) : T3 R := fun l p r => rcj R (t l p r).
(* Mpo.identity(model): bond dimension one, identity matrix on every site *)
Definition id_op : T4 R := fun _ d e _ => if Nat.eqb d e then 1 else 0.
(* the sandwich  conj(state) | identity | state  of a ket chain  [(phys dim, right bond dim, tensor)] *)
Definition self_site (x : nat * nat * T3 R) : site3 :=
  let '(p, d, t) := x in mk3 p d 1 d (cj3 t) id_op t.
Definition self_sand (ks : list (nat * nat * T3 R)) : list site3 := map self_site ks.

(* calc_1site_rdm (after fix 7924df4), site i of the chain  left ++ [(p,d,t)] ++ right, dl = left bond dim of t:
     ltensor = L-environment of `left` (operator bond squeezed), rtensor = R-environment of `right`
     tensor[x', y'] = sum ltensor[a,c] conj(t)[a,x',r'] rtensor[r',r] t[c,y',r]        rdm = tensor.T   *)
Definition rdm1 (left : list (nat * nat * T3 R)) (dl : nat) (p d : nat) (t : T3 R) (right : list (nat * nat * T3 R)) : nat -> nat -> R :=
  let L := envL3 1 1 1 sentinel (self_sand left) in
  let Rt := envR3 (self_sand right) sentinel in
  fun x y =>          (* = tensor[y, x] *)
    sumn dl (fun a => sumn dl (fun c => sumn d (fun r' => sumn d (fun r =>
      L a 0%nat c * rcj R (t a y r') * Rt r' 0%nat r * t c x r)))).

(* the same with tabulated environments (what the correspondence executes), and all sites of a chain *)
Definition rdm1t (left : list (nat * nat * T3 R)) (dl : nat) (p d : nat) (t : T3 R) (right : list (nat * nat * T3 R)) : nat -> nat -> R :=
  let L := envL3t 1 1 1 sentinel (self_sand left) in
  let Rt := envR3t d 1 d (self_sand right) sentinel in
  fun x y =>
    sumn dl (fun a => sumn dl (fun c => sumn d (fun r' => sumn d (fun r =>
      L a 0%nat c * rcj R (t a y r') * Rt r' 0%nat r * t c x r)))).
Definition ldim_of (left : list (nat * nat * T3 R)) : nat := fold_left (fun _ x => snd (fst x)) left 1%nat.
Definition rdm1_site (ks : list (nat * nat * T3 R)) (i : nat) : list R :=
  match skipn i ks with
  | [] => []
  | (p, d, t) :: rgt =>
      let f := rdm1t (firstn i ks) (ldim_of (firstn i ks)) p d t rgt in
      flat_map (fun x => map (fun y => f x y) (seq 0 p)) (seq 0 p)
  end.
Definition rdm1_all (ks : list (nat * nat * T3 R)) : list R := flat_map (rdm1_site ks) (seq 0 (length ks)).

(* calc_2site_rdm (after fix 7924df4): own tensordot chain -- L_component of site i, transfer through the middle
   sites, R_component of site j.  A ket site is (physical dim, right bond dim, tensor). *)
Definition ksite := (nat * nat * T3 R)%type.

(* L_component[i][x', x, r', r] = sum_{a,c} ltensor[a,c] conj(ms)[a,x',r'] ms[c,x,r]  (after the transpose (0,2,1,3)) *)
Definition lcomp (dl : nat) (L : nat -> nat -> R) (t : T3 R) (x' x : nat) : nat -> nat -> R :=
  fun r' r => sumn dl (fun a => sumn dl (fun c => L a c * rcj R (t a x' r') * t c x r)).
(* one middle site: tensordot(tensor, conj(ms_k), ([2],[0])) then tensordot(., ms_k, ([2,3],[0,1])) *)
Definition transfer (dprev : nat) (T : nat -> nat -> R) (k : ksite) : nat -> nat -> R :=
  let '(p, d, t) := k in
  fun l' l => sumn dprev (fun m' => sumn dprev (fun m => sumn p (fun s => T m' m * rcj R (t m' s l') * t m s l))).
Fixpoint transfers (dprev : nat) (T : nat -> nat -> R) (mid : list ksite) : nat -> nat -> R :=
  match mid with [] => T | k :: r => transfers (snd (fst k)) (transfer dprev T k) r end.
(* R_component[j][l', l, q', q] = sum_{r',r} conj(ms)[l',q',r'] rtensor[r',r] ms[l,q,r] *)
Definition rcomp (d : nat) (Rt : nat -> nat -> R) (t : T3 R) (q' q : nat) : nat -> nat -> R :=
  fun l' l => sumn d (fun r' => sumn d (fun r => rcj R (t l' q' r') * Rt r' r * t l q r)).
(* res[(x',q'),(x,q)] = sum_{l',l} tensor[x',x,l',l] R_component[l',l,q',q];  rdm = res.T  (fix 7924df4):
   entry  row (x1,x2), column (y1,y2)  =  res[(y1,y2),(x1,x2)] *)
Definition rdm2 (left : list ksite) (dl : nat) (p1 d1 : nat) (t1 : T3 R) (mid : list ksite) (dm : nat)
                (p2 d2 : nat) (t2 : T3 R) (right : list ksite) (x1 x2 y1 y2 : nat) : R :=
  let L := envL3 1 1 1 sentinel (self_sand left) in
  let Rt := envR3 (self_sand right) sentinel in
  let T := transfers d1 (lcomp dl (fun a c => L a 0%nat c) t1 y1 x1) mid in
  let Rc := rcomp d2 (fun r' r => Rt r' 0%nat r) t2 y2 x2 in
  sumn dm (fun l' => sumn dm (fun l => T l' l * Rc l' l)).

(* tabulated versions (executed by the correspondence) *)
Definition tab2 (da dc : nat) (T : nat -> nat -> R) : nat -> nat -> R :=
  let E := retab da 1 dc (fun a _ c => T a c) in fun a c => E a 0%nat c.
Fixpoint transfers_t (dprev : nat) (T : nat -> nat -> R) (mid : list ksite) : nat -> nat -> R :=
  match mid with [] => T | k :: r => transfers_t (snd (fst k)) (tab2 (snd (fst k)) (snd (fst k)) (transfer dprev T k)) r end.
Definition rdm2t (left : list ksite) (dl : nat) (p1 d1 : nat) (t1 : T3 R) (mid : list ksite) (dm : nat)
                (p2 d2 : nat) (t2 : T3 R) (right : list ksite) : nat -> nat -> nat -> nat -> R :=
  let L := envL3t 1 1 1 sentinel (self_sand left) in
  let Rt := envR3t d2 1 d2 (self_sand right) sentinel in
  fun x1 x2 y1 y2 =>
  let T := transfers_t d1 (tab2 d1 d1 (lcomp dl (fun a c => L a 0%nat c) t1 y1 x1)) mid in
  let Rc := tab2 dm dm (rcomp d2 (fun r' r => Rt r' 0%nat r) t2 y2 x2) in
  sumn dm (fun l' => sumn dm (fun l => T l' l * Rc l' l)).
Definition rdm2_pair (ks : list ksite) (i j : nat) : list R :=
  match skipn i ks with
  | (p1, d1, t1) :: rest =>
      match skipn (j - i - 1) rest with
      | (p2, d2, t2) :: rgt =>
          let mid := firstn (j - i - 1) rest in
          let lft := firstn i ks in
          let f := rdm2t lft (fold_left (fun _ x => snd (fst x)) lft 1%nat) p1 d1 t1 mid (fold_left (fun _ x => snd (fst x)) mid d1) p2 d2 t2 rgt in
          flat_map (fun x1 => flat_map (fun x2 => flat_map (fun y1 => map (fun y2 => f x1 x2 y1 y2) (seq 0 p2)) (seq 0 p1)) (seq 0 p2)) (seq 0 p1)
      | [] => []
      end
  | [] => []
  end.
Definition rdm2_all (ks : list ksite) : list R :=
  flat_map (fun i => flat_map (fun j => rdm2_pair ks i j) (seq (S i) (length ks - S i))) (seq 0 (length ks)).

(* ---- the ms.ndim == 4 branches of calc_1site_rdm / calc_2site_rdm (MpDm / purified states): the ancilla index
   of conj(ms) and ms is contracted together with the bonds.  A ket site is (phys dim, ancilla dim, right bond, tensor). *)
Definition ksite4 := (nat * nat * nat * T4 R)%type.
Definition cj4 (t : T4 R) : T4 R := fun l p q r => rcj R (t l p q r).
Definition self_site4 (x : ksite4) : site4 :=
  let '(p, q, d, t) := x in mk4 p q d 1 d (cj4 t) id_op t.
Definition self_sand4 (ks : list ksite4) : list site4 := map self_site4 ks.

(* tensor[x',x] = sum ltensor[a,c] conj(t)[a,x',l,r'] rtensor[r',r] t[c,x,l,r];  rdm = tensor.T *)
Definition rdm1_4g (L Rt : E3) (dl q d : nat) (t : T4 R) : nat -> nat -> R :=
  fun x y =>
    sumn d (fun r' => sumn d (fun r => sumn dl (fun a => sumn dl (fun c => sumn q (fun l =>
      L a 0%nat c * rcj R (t a y l r') * t c x l r * Rt r' 0%nat r))))).
Definition rdm1_4 (left : list ksite4) (dl p q d : nat) (t : T4 R) (right : list ksite4) : nat -> nat -> R :=
  rdm1_4g (envL4 1 1 1 sentinel (self_sand4 left)) (envR4 (self_sand4 right) sentinel) dl q d t.
Definition rdm1t_4 (left : list ksite4) (dl p q d : nat) (t : T4 R) (right : list ksite4) : nat -> nat -> R :=
  let L := envL4t 1 1 1 sentinel (self_sand4 left) in
  let Rt := envR4t d 1 d (self_sand4 right) sentinel in
  rdm1_4g L Rt dl q d t.

Definition lcomp4 (dl : nat) (L : nat -> nat -> R) (q : nat) (t : T4 R) (x' x : nat) : nat -> nat -> R :=
  fun r' r => sumn dl (fun a => sumn dl (fun c => sumn q (fun l => L a c * rcj R (t a x' l r') * t c x l r))).
Definition transfer4 (dprev : nat) (T : nat -> nat -> R) (k : ksite4) : nat -> nat -> R :=
  let '(p, q, d, t) := k in
  fun l' l => sumn dprev (fun m' => sumn dprev (fun m => sumn p (fun s => sumn q (fun anc =>
    T m' m * rcj R (t m' s anc l') * t m s anc l)))).
Definition rdim4 (k : ksite4) : nat := snd (fst k).
Fixpoint transfers4 (dprev : nat) (T : nat -> nat -> R) (mid : list ksite4) : nat -> nat -> R :=
  match mid with [] => T | k :: r => transfers4 (rdim4 k) (transfer4 dprev T k) r end.
Fixpoint transfers4_t (dprev : nat) (T : nat -> nat -> R) (mid : list ksite4) : nat -> nat -> R :=
  match mid with [] => T | k :: r => transfers4_t (rdim4 k) (tab2 (rdim4 k) (rdim4 k) (transfer4 dprev T k)) r end.
Definition rcomp4 (d : nat) (Rt : nat -> nat -> R) (q : nat) (t : T4 R) (q' qq : nat) : nat -> nat -> R :=
  fun l' l => sumn d (fun r' => sumn d (fun r => sumn q (fun anc => rcj R (t l' q' anc r') * Rt r' r * t l qq anc r))).
Definition rdm2_4 (left : list ksite4) (dl : nat) (p1 q1 d1 : nat) (t1 : T4 R) (mid : list ksite4) (dm : nat)
                  (p2 q2 d2 : nat) (t2 : T4 R) (right : list ksite4) (x1 x2 y1 y2 : nat) : R :=
  let L := envL4 1 1 1 sentinel (self_sand4 left) in
  let Rt := envR4 (self_sand4 right) sentinel in
  let T := transfers4 d1 (lcomp4 dl (fun a c => L a 0%nat c) q1 t1 y1 x1) mid in
  let Rc := rcomp4 d2 (fun r' r => Rt r' 0%nat r) q2 t2 y2 x2 in
  sumn dm (fun l' => sumn dm (fun l => T l' l * Rc l' l)).
Definition rdm2t_4 (left : list ksite4) (dl : nat) (p1 q1 d1 : nat) (t1 : T4 R) (mid : list ksite4) (dm : nat)
                   (p2 q2 d2 : nat) (t2 : T4 R) (right : list ksite4) : nat -> nat -> nat -> nat -> R :=
  let L := envL4t 1 1 1 sentinel (self_sand4 left) in
  let Rt := envR4t d2 1 d2 (self_sand4 right) sentinel in
  fun x1 x2 y1 y2 =>
  let T := transfers4_t d1 (tab2 d1 d1 (lcomp4 dl (fun a c => L a 0%nat c) q1 t1 y1 x1)) mid in
  let Rc := tab2 dm dm (rcomp4 d2 (fun r' r => Rt r' 0%nat r) q2 t2 y2 x2) in
  sumn dm (fun l' => sumn dm (fun l => T l' l * Rc l' l)).
Definition ldim_of4 (lft : list ksite4) (d0 : nat) : nat := fold_left (fun _ x => rdim4 x) lft d0.
Definition rdm1_site4 (ks : list ksite4) (i : nat) : list R :=
  match skipn i ks with
  | [] => []
  | (p, q, d, t) :: rgt =>
      let f := rdm1t_4 (firstn i ks) (ldim_of4 (firstn i ks) 1%nat) p q d t rgt in
      flat_map (fun x => map (fun y => f x y) (seq 0 p)) (seq 0 p)
  end.
Definition rdm1_all4 (ks : list ksite4) : list R := flat_map (rdm1_site4 ks) (seq 0 (length ks)).
Definition rdm2_pair4 (ks : list ksite4) (i j : nat) : list R :=
  match skipn i ks with
  | (p1, q1, d1, t1) :: rest =>
      match skipn (j - i - 1) rest with
      | (p2, q2, d2, t2) :: rgt =>
          let mid := firstn (j - i - 1) rest in
          let lft := firstn i ks in
          let f := rdm2t_4 lft (ldim_of4 lft 1%nat) p1 q1 d1 t1 mid (ldim_of4 mid d1) p2 q2 d2 t2 rgt in
          flat_map (fun x1 => flat_map (fun x2 => flat_map (fun y1 => map (fun y2 => f x1 x2 y1 y2) (seq 0 p2)) (seq 0 p1)) (seq 0 p2)) (seq 0 p1)
      | [] => []
      end
  | [] => []
  end.
Definition rdm2_all4 (ks : list ksite4) : list R :=
  flat_map (fun i => flat_map (fun j => rdm2_pair4 ks i j) (seq (S i) (length ks - S i))) (seq 0 (length ks)).

(* ---- occupations: observation helpers for the correspondence.
   occ_dense ks k = sum_s s_k |Psi(s)|^2 (the dense value C07_occupation_dense gives for an operator whose dense matrix
   is diag(s_k)); diag_probe lists the diagonal of an operator chain's dense matrix over all configurations (row-major)
   followed by the squared norm of everything off the diagonal. *)
Fixpoint nR (n : nat) : R := match n with O => 0 | S m => 1 + nR m end.
Definition kchain_of (ks : list ksite) : list (nat * T3 R) := map (fun x => (snd (fst x), snd x)) ks.
Definition occ_dense (ks : list ksite) (k : nat) : R :=
  sumcfg (map (fun x => fst (fst x)) ks) (fun s =>
    nR (nth k s 0%nat) * (rcj R (amp (kchain_of ks) s) * amp (kchain_of ks) s)).
Definition all_cfgs (dims : list nat) : list (list nat) :=
  fold_right (fun d acc => flat_map (fun a => map (cons a) acc) (seq 0 d)) [[]] dims.
Fixpoint nat_list_eqb (a b : list nat) : bool :=
  match a, b with
  | [], [] => true
  | x :: a', y :: b' => Nat.eqb x y && nat_list_eqb a' b'
  | _, _ => false
  end.
Definition diag_probe (os : list (nat * T4 R)) (dims : list nat) : list R :=
  let cs := all_cfgs dims in
  map (fun s => opamp os s s) cs ++
  [fold_right (fun s' acc => fold_right (fun s acc2 =>
      if nat_list_eqb s' s then acc2 else opamp os s' s * rcj R (opamp os s' s) + acc2) acc cs) 0 cs].

(* calc_edof_rdm: Hermitian completion of the upper triangle obtained from `expectations`:
   the values arrive in the order (0,0),(0,1),...,(0,n-1),(1,1),...; rdm[i,j] = e, rdm[j,i] = conj e for i <= j *)
Definition tri_index (n i j : nat) : nat := i * n - (i * (i - 1)) / 2 - i + j.   (* position of (i,j), i<=j, in the popleft order *)
Definition edof_rdm (n : nat) (es : list R) : nat -> nat -> R :=
  fun i j => if i <=? j then nth (tri_index n i j) es 0 else rcj R (nth (tri_index n j i) es 0).

End Env.

Arguments sum3 {R} da db dc F.
Arguments sentinel {R}.
Arguments retab {R} da db dc E.
Arguments dot3 {R} da db dc L Rt.
Arguments cos_L3 {R} da db dc p env cj mo ms.
Arguments cos_L4 {R} da db dc p q env cj mo ms.
Arguments cos_R3 {R} da db dc p env cj mo ms.
Arguments cos_R4 {R} da db dc p q env cj mo ms.
Arguments mk3 {R}. Arguments mk4 {R}.
Arguments p3 {R}. Arguments a3 {R}. Arguments b3 {R}. Arguments c3 {R}. Arguments bra3 {R}. Arguments op3 {R}. Arguments ket3 {R}.
Arguments p4 {R}. Arguments q4 {R}. Arguments a4 {R}. Arguments b4 {R}. Arguments c4 {R}. Arguments bra4 {R}. Arguments op4 {R}. Arguments ket4 {R}.
Arguments lift3 {R} s.
Arguments stepL3 {R}. Arguments stepL4 {R}. Arguments stepR3 {R}. Arguments stepR4 {R}.
Arguments envL3 {R}. Arguments envL4 {R}. Arguments envR3 {R}. Arguments envR4 {R}.
Arguments envL3t {R}. Arguments envL4t {R}. Arguments envR3t {R}. Arguments envR4t {R}.
Arguments expectation3 {R}. Arguments expectation4 {R}. Arguments expectation3t {R}. Arguments expectation4t {R}.
Arguments bras3 {R}. Arguments ops3 {R}. Arguments kets3 {R}. Arguments bras4 {R}. Arguments ops4 {R}. Arguments kets4 {R}.
Arguments zip3 {R}. Arguments zip4 {R}.
Arguments cj3 {R}. Arguments id_op {R}. Arguments self_site {R}. Arguments self_sand {R}.
Arguments lcomp {R}. Arguments transfer {R}. Arguments transfers {R}. Arguments rcomp {R}. Arguments rdm2 {R}. Arguments tab2 {R}. Arguments transfers_t {R}. Arguments rdm2t {R}. Arguments rdm2_pair {R}. Arguments rdm2_all {R}.
Arguments cj4 {R}. Arguments self_site4 {R}. Arguments self_sand4 {R}. Arguments rdm1_4g {R}. Arguments rdm1_4 {R}. Arguments rdm1t_4 {R}.
Arguments lcomp4 {R}. Arguments transfer4 {R}. Arguments rdim4 {R}. Arguments transfers4 {R}. Arguments transfers4_t {R}. Arguments rcomp4 {R}. Arguments rdm2_4 {R}. Arguments rdm2t_4 {R}.
Arguments ldim_of4 {R}. Arguments rdm1_site4 {R}. Arguments rdm1_all4 {R}. Arguments rdm2_pair4 {R}. Arguments rdm2_all4 {R}.
Arguments nR {R}. Arguments kchain_of {R}. Arguments occ_dense {R}. Arguments diag_probe {R}.
Arguments rdm1 {R}. Arguments edof_rdm {R}. Arguments rdm1t {R}. Arguments ldim_of {R}. Arguments rdm1_site {R}. Arguments rdm1_all {R}. Arguments tri_index n i j : assert.

(* ------------------------------------------------------------------ Mps.expectations(opt=True), instantiated *)
(* The abstract cache of Model/FreqCache.v with real environments: an environment carries its shape (as the
   NumPy array does), an operator site is (left bond dim, right bond dim, tensor) = shape and data of one Matrix. *)
Section FastInst.
Variable R : CRing.
Definition EnvD := (nat * nat * nat * E3 R)%type.
Definition OpSite := (nat * nat * T4 R)%type.

Variable ps : list nat.                       (* physical dimensions *)
Variables bra ket : list (nat * T3 R).        (* self_conj (as passed, not conjugated) and self *)

Definition zero3 : T3 R := fun _ _ _ => r0 R.
Definition rdim (c : list (nat * T3 R)) (i : nat) : nat := fst (nth i c (1, zero3)).
Definition ldim (c : list (nat * T3 R)) (i : nat) : nat := match i with 0 => 1 | S j => rdim c j end.
Definition tens (c : list (nat * T3 R)) (i : nat) : T3 R := snd (nth i c (1, zero3)).

(* site i of the sandwich with the operator site o *)
Definition site_at (i : nat) (o : OpSite) : site3 R :=
  mk3 (nth i ps 0) (rdim bra i) (snd (fst o)) (rdim ket i) (tens bra i) (snd o) (tens ket i).

Definition env_stepo (d : domain) (i : nat) (o : OpSite) (e : EnvD) : EnvD :=
  let '(da, db, dc, T) := e in
  let s := site_at i o in
  match d with
  | DL => (a3 s, b3 s, c3 s, retab (a3 s) (b3 s) (c3 s) (stepL3 da db dc T s))
  | DR => (ldim bra i, fst (fst o), ldim ket i, retab (ldim bra i) (fst (fst o)) (ldim ket i) (stepR3 s T))
  end.
Definition env_init : EnvD := (1, 1, 1, sentinel).
Definition env_dot (l r : EnvD) : R :=
  let '(da, db, dc, L) := l in let '(_, _, _, Rt) := r in dot3 da db dc L Rt.
Definition op_dflt : OpSite := (1, 1, fun _ _ _ _ => r0 R).

Definition expectations_fast3 (nmps : nat) (ms : list (hop OpSite)) : option (list R) :=
  expectations_fast EnvD OpSite R env_stepo env_init op_dflt env_dot nmps ms.

(* the sandwich of the state with one operator, sites i, i+1, ... *)
Fixpoint sites_from (i : nat) (objs : list OpSite) : list (site3 R) :=
  match objs with [] => [] | o :: r => site_at i o :: sites_from (S i) r end.

(* [self.expectation(mpo, self_conj) for mpo in mpos] *)
Definition expectations_slow3 (ms : list (hop OpSite)) : list R :=
  map (fun m => expectation3t (sites_from 0 (map snd m))) ms.

(* observation helpers for the correspondence: the two dictionaries, the split indices, the cached tensors *)
Definition dict_of (d : domain) (nmps : nat) (ms : list (hop OpSite)) : option (list (key * EnvD)) :=
  construct EnvD (stepc_of EnvD OpSite env_stepo op_dflt ms) env_init d (map (hashes_of OpSite) ms) nmps.
Definition splits (nmps : nat) (ms : list (hop OpSite)) : list Z :=
  match dict_of DL nmps ms, dict_of DR nmps ms with
  | Some lres, Some rres =>
      flat_map (fun m =>
        let n := length m in
        let hs := hashes_of OpSite m in
        let l_idx := get_idx DL n (get_key EnvD lres DL hs None) in
        let r_idx := get_idx DR n (get_key EnvD rres DR hs (Some (Z.to_nat (Z.of_nat n - l_idx - 1)))) in
        [l_idx; r_idx]) ms
  | _, _ => []
  end.
Definition env_dump (e : EnvD) : list nat * list R :=
  let '(da, db, dc, T) := e in ([da; db; dc], concat (concat (tab3 da db dc T))).
Definition dict_dump (d : domain) (nmps : nat) (ms : list (hop OpSite)) : list (list nat * list R) :=
  match dict_of d nmps ms with Some res => map (fun kv => env_dump (snd kv)) (tl res) | None => [] end.
End FastInst.

(* ------------------------------------------------------------------ the same for MpDm (rank-4 state sites) *)
Section FastInst4.
Variable R : CRing.
Variables ps qs : list nat.                   (* physical and ancilla dimensions *)
Variables bra ket : list (nat * T4 R).        (* self_conj (as passed) and self *)

Definition zero4 : T4 R := fun _ _ _ _ => r0 R.
Definition rdimc4 (c : list (nat * T4 R)) (i : nat) : nat := fst (nth i c (1, zero4)).
Definition ldimc4 (c : list (nat * T4 R)) (i : nat) : nat := match i with 0 => 1 | S j => rdimc4 c j end.
Definition tensc4 (c : list (nat * T4 R)) (i : nat) : T4 R := snd (nth i c (1, zero4)).

Definition site_at4 (i : nat) (o : OpSite R) : site4 R :=
  mk4 (nth i ps 0) (nth i qs 0) (rdimc4 bra i) (snd (fst o)) (rdimc4 ket i) (tensc4 bra i) (snd o) (tensc4 ket i).

Definition env_stepo4 (d : domain) (i : nat) (o : OpSite R) (e : EnvD R) : EnvD R :=
  let '(da, db, dc, T) := e in
  let s := site_at4 i o in
  match d with
  | DL => (a4 s, b4 s, c4 s, retab (a4 s) (b4 s) (c4 s) (stepL4 da db dc T s))
  | DR => (ldimc4 bra i, fst (fst o), ldimc4 ket i, retab (ldimc4 bra i) (fst (fst o)) (ldimc4 ket i) (stepR4 s T))
  end.

Definition expectations_fast4 (nmps : nat) (ms : list (hop (OpSite R))) : option (list R) :=
  expectations_fast (EnvD R) (OpSite R) R env_stepo4 (env_init R) (op_dflt R) (env_dot R) nmps ms.

Fixpoint sites_from4 (i : nat) (objs : list (OpSite R)) : list (site4 R) :=
  match objs with [] => [] | o :: r => site_at4 i o :: sites_from4 (S i) r end.

Definition expectations_slow4 (ms : list (hop (OpSite R))) : list R :=
  map (fun m => expectation4t (sites_from4 0 (map snd m))) ms.
End FastInst4.
