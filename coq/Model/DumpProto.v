(* C14 -- file-system model for the periodic result dump of a time-evolution job
   (renormalizer/utils/tdmps.py: TdMpsJob.dump_dict) and for histories of crashes and restarts.

   Only definitions here (executable, total).  The protocol itself is NOT written here: it is the
   list of operations in Gen/DumpProto.v, regenerated from the source on every run.

   Paths are small numbers; Gen/DumpProto.v fixes the table (0 = <job>.npz, 1 = <job>.npz.bak, ...).
   A cell says what a path holds.  The interpreter is generic in the cell type so that the same
   code runs the concrete model (Complete carries the number of the dump that wrote the data) and
   the finite abstraction used by the model checker in Proofs/DumpProtoProofs.v. *)
From Coq Require Import List Arith Bool.
Import ListNotations.

Definition path := nat.

Inductive guard :=
| GExists (p : path)                 (* os.path.exists(p)      *)
| GNotExists (p : path).             (* not os.path.exists(p)  *)

Inductive op :=
| Makedirs                           (* os.makedirs(dump_dir, exist_ok=True): a crash point, no effect on the files *)
| Remove (p : path)                  (* os.remove: raises when p is absent *)
| Rename (src dst : path)            (* os.rename, POSIX: atomic, silently replaces dst; raises when src is absent *)
| Replace (src dst : path)           (* os.replace: the same on POSIX *)
| Write (p : path)                   (* np.savez(p, ...): open-and-truncate, write, close = TWO atomic actions *)
| If (g : guard) (body : list op).   (* `if <exists test>:` without else *)

Section Interp.
  Variable cell : Type.
  Variable absent partial : cell.
  Variable is_absent : cell -> bool.

  Definition fs := list cell.

  Definition get (s : fs) (p : path) : cell := nth p s absent.

  (* a path outside the table cannot be created; the translator only emits paths inside the table *)
  Fixpoint set (s : fs) (p : path) (c : cell) : fs :=
    match s, p with
    | [], _ => []
    | _ :: s', O => c :: s'
    | x :: s', S p' => x :: set s' p' c
    end.

  Definition eval (g : guard) (s : fs) : bool :=
    match g with
    | GExists p => negb (is_absent (get s p))
    | GNotExists p => is_absent (get s p)
    end.

  (* result of running something from state s: the file-system states after each atomic action
     (in order; the state in force afterwards is [last trace s]) and whether no operation raised.
     When an operation raises, nothing after it is executed. *)
  Definition result := (list fs * bool)%type.

  Definition move (s : fs) (a b : path) : result :=
    if is_absent (get s a) then ([], false)
    else if Nat.eqb a b then ([s], true)
    else ([set (set s b (get s a)) a absent], true).

  Fixpoint run_op (cur : cell) (o : op) (s : fs) {struct o} : result :=
    match o with
    | Makedirs => ([s], true)
    | Remove p => if is_absent (get s p) then ([], false) else ([set s p absent], true)
    | Rename a b => move s a b
    | Replace a b => move s a b
    | Write p => ([set s p partial; set s p cur], true)
    | If g body =>
        if eval g s then
          (fix go (l : list op) (s : fs) {struct l} : result :=
             match l with
             | [] => ([], true)
             | o :: l' =>
                 let r := run_op cur o s in
                 if snd r then
                   let r' := go l' (last (fst r) s) in (fst r ++ fst r', snd r')
                 else r
             end) body s
        else ([], true)
    end.

  Fixpoint run_ops (cur : cell) (l : list op) (s : fs) {struct l} : result :=
    match l with
    | [] => ([], true)
    | o :: l' =>
        let r := run_op cur o s in
        if snd r then
          let r' := run_ops cur l' (last (fst r) s) in (fst r ++ fst r', snd r')
        else r
    end.
End Interp.

Arguments get {cell} absent s p.
Arguments set {cell} s p c.
Arguments run_ops {cell} absent partial is_absent cur l s.
Arguments run_op {cell} absent partial is_absent cur o s.
Arguments eval {cell} absent is_absent g s.

(* ------------------------------------------------------------------ concrete model *)

Inductive cell := Absent | Partial | Complete (k : nat).

Definition c_is_absent (c : cell) : bool := match c with Absent => true | _ => false end.

(* one execution of dump_dict whose payload is the result of dump number n *)
Definition crun (n : nat) (proto : list op) (s : list cell) : list (list cell) * bool :=
  run_ops Absent Partial c_is_absent (Complete n) proto s.

(* One attempt = one call of dump_dict.  [None]: the process is not killed during the call (the
   call returns, or an operation raises OSError, which TdMpsJob.evolve logs and survives).
   [Some c]: the process dies when exactly c atomic actions of the call have been performed
   (c = 0: before the first; c >= number of actions: after the last but before the call returned).
   After a death the next attempt belongs to a job restarted into the left-behind directory; after
   a normal return it is the next step of the same job (or again a restarted job -- the file system
   cannot tell).  Attempts are numbered 1, 2, 3, ... over the whole history. *)
Definition attempt := option nat.

Record hstate := mk_hstate {
  h_fs : list cell;      (* directory contents *)
  h_next : nat;          (* number of the next attempt *)
  h_fin : nat            (* number of the last attempt that returned normally; 0 = none yet *)
}.

Definition step_attempt (proto : list op) (st : hstate) (a : attempt) : hstate :=
  let r := crun (h_next st) proto (h_fs st) in
  match a with
  | None => mk_hstate (last (fst r) (h_fs st)) (S (h_next st)) (if snd r then h_next st else h_fin st)
  | Some c => mk_hstate (last (firstn c (fst r)) (h_fs st)) (S (h_next st)) (h_fin st)
  end.

Definition run_history (proto : list op) (h : list attempt) (st : hstate) : hstate :=
  fold_left (step_attempt proto) h st.

Definition init_state (npaths : nat) : hstate := mk_hstate (repeat Absent npaths) 1 0.

(* the property: once some dump has returned, a watched file holds the complete data of that dump
   or of a later one (and never of a future one) *)
Definition safe (watched : list path) (st : hstate) : Prop :=
  h_fin st = 0 \/
  exists p k, In p watched /\ get Absent (h_fs st) p = Complete k /\ h_fin st <= k < h_next st.

Definition safe_b (watched : list path) (st : hstate) : bool :=
  Nat.eqb (h_fin st) 0 ||
  existsb (fun p => match get Absent (h_fs st) p with
                    | Complete k => Nat.leb (h_fin st) k && Nat.ltb k (h_next st)
                    | _ => false end) watched.

(* did every un-killed attempt of the history return normally (no operation raised)? *)
Fixpoint no_raise (proto : list op) (h : list attempt) (st : hstate) : bool :=
  match h with
  | [] => true
  | a :: h' => snd (crun (h_next st) proto (h_fs st)) && no_raise proto h' (step_attempt proto st a)
  end.

(* ------------------------------------------------------------------ finite abstraction *)

(* What a path holds, relative to the attempt in progress (number n) and the last returned one (m):
   AOld  = complete data of a dump older than m,
   AGood = complete data of dump k with m <= k < n,
   ACur  = complete data of the dump in progress. *)
Inductive acell := AAbs | APart | AOld | AGood | ACur.

Definition a_is_absent (c : acell) : bool := match c with AAbs => true | _ => false end.

Definition acell_eqb (x y : acell) : bool :=
  match x, y with
  | AAbs, AAbs | APart, APart | AOld, AOld | AGood, AGood | ACur, ACur => true
  | _, _ => false
  end.

Definition arun (proto : list op) (a : list acell) : list (list acell) * bool :=
  run_ops AAbs APart a_is_absent ACur proto a.

(* between two attempts: the attempt did not return / returned *)
Definition relabel_crash (c : acell) : acell := match c with ACur => AGood | x => x end.
Definition relabel_fin (c : acell) : acell := match c with ACur => AGood | AGood => AOld | x => x end.

(* abstract state between attempts: cells + "has any attempt returned yet" *)
Definition astate := (list acell * bool)%type.

Fixpoint alist_eqb (x y : list acell) : bool :=
  match x, y with
  | [], [] => true
  | a :: x', b :: y' => acell_eqb a b && alist_eqb x' y'
  | _, _ => false
  end.

Definition astate_eqb (x y : astate) : bool := alist_eqb (fst x) (fst y) && Bool.eqb (snd x) (snd y).

Definition amem (x : astate) (l : list astate) : bool := existsb (astate_eqb x) l.

(* all states an attempt started in x can leave behind *)
Definition asucc (proto : list op) (x : astate) : list astate :=
  let r := arun proto (fst x) in
  (if snd r then [(map relabel_fin (last (fst r) (fst x)), true)] else [])
  ++ map (fun y => (map relabel_crash y, snd x)) (fst x :: fst r).

Definition asafe (watched : list path) (x : astate) : bool :=
  negb (snd x) ||
  existsb (fun p => match get AAbs (fst x) p with AGood => true | _ => false end) watched.

Definition aok (proto : list op) (x : astate) : bool := snd (arun proto (fst x)).

Definition ainit (npaths : nat) : astate := (repeat AAbs npaths, false).

(* worklist exploration; nothing is proved about it -- its result is only a CANDIDATE invariant
   that [inv_ok] then checks *)
Fixpoint explore (fuel : nat) (proto : list op) (todo seen : list astate) : list astate :=
  match fuel with
  | O => seen
  | S f =>
      match todo with
      | [] => seen
      | x :: todo' =>
          if amem x seen then explore f proto todo' seen
          else explore f proto (asucc proto x ++ todo') (x :: seen)
      end
  end.

Definition reach (proto : list op) (npaths : nat) : list astate :=
  explore 4000 proto [ainit npaths] [].

(* I contains the initial state and is closed under attempts *)
Definition inv_closed (proto : list op) (npaths : nat) (I : list astate) : bool :=
  amem (ainit npaths) I && forallb (fun x => forallb (fun y => amem y I) (asucc proto x)) I.

Definition inv_safe (watched : list path) (I : list astate) : bool := forallb (asafe watched) I.
Definition inv_noraise (proto : list op) (I : list astate) : bool := forallb (aok proto) I.

(* the model checker: one boolean per protocol *)
Definition check_safe_inv (proto : list op) (npaths : nat) (watched : list path) (I : list astate) : bool :=
  inv_closed proto npaths I && inv_safe watched I.
Definition check_noraise_inv (proto : list op) (npaths : nat) (I : list astate) : bool :=
  inv_closed proto npaths I && inv_noraise proto I.

Definition check_safe (proto : list op) (npaths : nat) (watched : list path) : bool :=
  check_safe_inv proto npaths watched (reach proto npaths).

Definition check_noraise (proto : list op) (npaths : nat) : bool :=
  check_noraise_inv proto npaths (reach proto npaths).

(* ------------------------------------------------------------------ search for a failing history
   (used by the harness when check_safe is false; concrete model, bounded) *)

Definition crash_points (proto : list op) (st : hstate) : list attempt :=
  None :: map Some (seq 0 (S (length (fst (crun (h_next st) proto (h_fs st)))))).

Fixpoint find_unsafe (depth : nat) (proto : list op) (watched : list path) (st : hstate)
  : option (list attempt) :=
  if negb (safe_b watched st) then Some [] else
  match depth with
  | O => None
  | S d =>
      (fix try (l : list attempt) : option (list attempt) :=
         match l with
         | [] => None
         | a :: l' =>
             match find_unsafe d proto watched (step_attempt proto st a) with
             | Some h => Some (a :: h)
             | None => try l'
             end
         end) (crash_points proto st)
  end.

(* encodings for printing: cells and attempts as integers *)
From Coq Require Import ZArith.
Definition cell_code (c : cell) : Z :=
  match c with Absent => (-1)%Z | Partial => (-2)%Z | Complete k => Z.of_nat k end.
Definition attempt_code (a : attempt) : Z :=
  match a with None => (-1)%Z | Some c => Z.of_nat c end.
Definition decode_attempt (z : Z) : attempt := if (z <? 0)%Z then None else Some (Z.to_nat z).

(* ------------------------------------------------------------------ serialisation keys
   (Gen/DumpKeys.v lists, per object kind, the key families the dumper writes and the loader reads) *)
From Coq Require Import String.

Inductive fam :=
| FConst (name : string)                 (* one key *)
| FIdx (prefix : string) (off : nat).    (* prefix_0 ... prefix_{n+off-1}, n = number of sites / nodes *)

Inductive key := KConst (name : string) | KIdx (prefix : string) (i : nat).

Definition expand (n : nat) (f : fam) : list key :=
  match f with
  | FConst s => [KConst s]
  | FIdx p off => map (KIdx p) (seq 0 (n + off))
  end.

Definition keys (n : nat) (fs : list fam) : list key := flat_map (expand n) fs.

Definition fam_covered (ws : list fam) (r : fam) : bool :=
  match r with
  | FConst s => existsb (fun w => match w with FConst s' => String.eqb s s' | _ => false end) ws
  | FIdx p off => existsb (fun w => match w with FIdx p' off' => String.eqb p p' && Nat.leb off off' | _ => false end) ws
  end.

Definition covers (ws rs : list fam) : bool := forallb (fam_covered ws) rs.

(* a kind is fine when the loader accepts the written version and reads only written keys *)
Definition kind_ok (k : string * string * list fam * option (list fam)) : bool :=
  match snd k with
  | Some rs => covers (snd (fst k)) rs
  | None => false
  end.
