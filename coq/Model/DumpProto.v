(* C14 -- file-system model for the periodic result dump of a time-evolution job
   (renormalizer/utils/tdmps.py: TdMpsJob.dump_dict) and for histories of crashes and restarts.

   Only definitions here (executable, total).  The protocol itself is NOT written here: it is the
   list of operations in Gen/DumpProto.v, regenerated from the source on every run.

   Paths are small numbers; Gen/DumpProto.v fixes the table (0 = <job>.npz, 1 = <job>.npz.bak, ...).
   A cell says what a path holds.  The interpreter is generic in the cell type so that the same
   code runs the concrete model (Complete carries the number of the dump that wrote the data) and
   the finite abstraction used by the model checker in Proofs/DumpProtoProofs.v. *)
From Coq Require Import List Arith Bool.
Import ListNotations.

Definition path := nat.

Inductive guard :=
| GExists (p : path)                 (* os.path.exists(p)      *)
| GNotExists (p : path).             (* not os.path.exists(p)  *)

Inductive op :=
| Makedirs                           (* os.makedirs(dump_dir, exist_ok=True): a crash point, no effect on the files *)
| Remove (p : path)                  (* os.remove: raises when p is absent *)
| Rename (src dst : path)            (* os.rename, POSIX: atomic, silently replaces dst; raises when src is absent *)
| Replace (src dst : path)           (* os.replace: the same on POSIX *)
| Write (p : path)                   (* np.savez(p, ...): open-and-truncate, write, close = TWO atomic actions *)
| If (g : guard) (body : list op).   (* `if <exists test>:` without else *)

Section Interp.
  Variable cell : Type.
  Variable absent partial : cell.
  Variable is_absent : cell -> bool.

  Definition fs := list cell.

  Definition get (s : fs) (p : path) : cell := nth p s absent.

  (* a path outside the table cannot be created; the translator only emits paths inside the table *)
  Fixpoint set (s : fs) (p : path) (c : cell) : fs :=
    match s, p with
    | [], _ => []
    | _ :: s', O => c :: s'
    | x :: s', S p' => x :: set s' p' c
    end.

  Definition eval (g : guard) (s : fs) : bool :=
    match g with
    | GExists p => negb (is_absent (get s p))
    | GNotExists p => is_absent (get s p)
    end.

  (* result of running something from state s: the file-system states after each atomic action
     (in order; the state in force afterwards is [last trace s]) and whether no operation raised.
     When an operation raises, nothing after it is executed. *)
  Definition result := (list fs * bool)%type.

  Definition move (s : fs) (a b : path) : result :=
    if is_absent (get s a) then ([], false)
    else if Nat.eqb a b then ([s], true)
    else ([set (set s b (get s a)) a absent], true).

  Fixpoint run_op (cur : cell) (o : op) (s : fs) {struct o} : result :=
    match o with
    | Makedirs => ([s], true)
    | Remove p => if is_absent (get s p) then ([], false) else ([set s p absent], true)
    | Rename a b => move s a b
    | Replace a b => move s a b
    | Write p => ([set s p partial; set s p cur], true)
    | If g body =>
        if eval g s then
          (fix go (l : list op) (s : fs) {struct l} : result :=
             match l with
             | [] => ([], true)
             | o :: l' =>
                 let r := run_op cur o s in
                 if snd r then
                   let r' := go l' (last (fst r) s) in (fst r ++ fst r', snd r')
                 else r
             end) body s
        else ([], true)
    end.

  Fixpoint run_ops (cur : cell) (l : list op) (s : fs) {struct l} : result :=
    match l with
    | [] => ([], true)
    | o :: l' =>
        let r := run_op cur o s in
        if snd r then
          let r' := run_ops cur l' (last (fst r) s) in (fst r ++ fst r', snd r')
        else r
    end.
End Interp.

Arguments get {cell} absent s p.
Definition cell_at {cell : Type} (absent : cell) (s : list cell) (p : path) : cell := get absent s p.   (* [get] is shadowed by String.get further down *)
Arguments set {cell} s p c.
Arguments run_ops {cell} absent partial is_absent cur l s.
Arguments run_op {cell} absent partial is_absent cur o s.
Arguments eval {cell} absent is_absent g s.

(* ------------------------------------------------------------------ concrete model *)

Inductive cell := Absent | Partial | Complete (k : nat).

Definition c_is_absent (c : cell) : bool := match c with Absent => true | _ => false end.

(* one execution of dump_dict whose payload is the result of dump number n *)
Definition crun (n : nat) (proto : list op) (s : list cell) : list (list cell) * bool :=
  run_ops Absent Partial c_is_absent (Complete n) proto s.

(* One attempt = one call of dump_dict.  [None]: the process is not killed during the call (the
   call returns, or an operation raises OSError, which TdMpsJob.evolve logs and survives).
   [Some c]: the process dies when exactly c atomic actions of the call have been performed
   (c = 0: before the first; c >= number of actions: after the last but before the call returned).
   After a death the next attempt belongs to a job restarted into the left-behind directory; after
   a normal return it is the next step of the same job (or again a restarted job -- the file system
   cannot tell).  Attempts are numbered 1, 2, 3, ... over the whole history. *)
Definition attempt := option nat.

Record hstate := mk_hstate {
  h_fs : list cell;      (* directory contents *)
  h_next : nat;          (* number of the next attempt *)
  h_fin : nat            (* number of the last attempt that returned normally; 0 = none yet *)
}.

Definition step_attempt (proto : list op) (st : hstate) (a : attempt) : hstate :=
  let r := crun (h_next st) proto (h_fs st) in
  match a with
  | None => mk_hstate (last (fst r) (h_fs st)) (S (h_next st)) (if snd r then h_next st else h_fin st)
  | Some c => mk_hstate (last (firstn c (fst r)) (h_fs st)) (S (h_next st)) (h_fin st)
  end.

Definition run_history (proto : list op) (h : list attempt) (st : hstate) : hstate :=
  fold_left (step_attempt proto) h st.

Definition init_state (npaths : nat) : hstate := mk_hstate (repeat Absent npaths) 1 0.

(* the property: once some dump has returned, a watched file holds the complete data of that dump
   or of a later one (and never of a future one) *)
Definition safe (watched : list path) (st : hstate) : Prop :=
  h_fin st = 0 \/
  exists p k, In p watched /\ get Absent (h_fs st) p = Complete k /\ h_fin st <= k < h_next st.

Definition safe_b (watched : list path) (st : hstate) : bool :=
  Nat.eqb (h_fin st) 0 ||
  existsb (fun p => match get Absent (h_fs st) p with
                    | Complete k => Nat.leb (h_fin st) k && Nat.ltb k (h_next st)
                    | _ => false end) watched.

(* did every un-killed attempt of the history return normally (no operation raised)? *)
Fixpoint no_raise (proto : list op) (h : list attempt) (st : hstate) : bool :=
  match h with
  | [] => true
  | a :: h' => snd (crun (h_next st) proto (h_fs st)) && no_raise proto h' (step_attempt proto st a)
  end.

(* ------------------------------------------------------------------ finite abstraction *)

(* What a path holds, relative to the attempt in progress (number n) and the last returned one (m):
   AOld  = complete data of a dump older than m,
   AGood = complete data of dump k with m <= k < n,
   ACur  = complete data of the dump in progress. *)
Inductive acell := AAbs | APart | AOld | AGood | ACur.

Definition a_is_absent (c : acell) : bool := match c with AAbs => true | _ => false end.

Definition acell_eqb (x y : acell) : bool :=
  match x, y with
  | AAbs, AAbs | APart, APart | AOld, AOld | AGood, AGood | ACur, ACur => true
  | _, _ => false
  end.

Definition arun (proto : list op) (a : list acell) : list (list acell) * bool :=
  run_ops AAbs APart a_is_absent ACur proto a.

(* between two attempts: the attempt did not return / returned *)
Definition relabel_crash (c : acell) : acell := match c with ACur => AGood | x => x end.
Definition relabel_fin (c : acell) : acell := match c with ACur => AGood | AGood => AOld | x => x end.

(* abstract state between attempts: cells + "has any attempt returned yet" *)
Definition astate := (list acell * bool)%type.

Fixpoint alist_eqb (x y : list acell) : bool :=
  match x, y with
  | [], [] => true
  | a :: x', b :: y' => acell_eqb a b && alist_eqb x' y'
  | _, _ => false
  end.

Definition astate_eqb (x y : astate) : bool := alist_eqb (fst x) (fst y) && Bool.eqb (snd x) (snd y).

Definition amem (x : astate) (l : list astate) : bool := existsb (astate_eqb x) l.

(* all states an attempt started in x can leave behind *)
Definition asucc (proto : list op) (x : astate) : list astate :=
  let r := arun proto (fst x) in
  (if snd r then [(map relabel_fin (last (fst r) (fst x)), true)] else [])
  ++ map (fun y => (map relabel_crash y, snd x)) (fst x :: fst r).

Definition asafe (watched : list path) (x : astate) : bool :=
  negb (snd x) ||
  existsb (fun p => match get AAbs (fst x) p with AGood => true | _ => false end) watched.

Definition aok (proto : list op) (x : astate) : bool := snd (arun proto (fst x)).

Definition ainit (npaths : nat) : astate := (repeat AAbs npaths, false).

(* worklist exploration; nothing is proved about it -- its result is only a CANDIDATE invariant
   that [inv_ok] then checks *)
Fixpoint explore (fuel : nat) (proto : list op) (todo seen : list astate) : list astate :=
  match fuel with
  | O => seen
  | S f =>
      match todo with
      | [] => seen
      | x :: todo' =>
          if amem x seen then explore f proto todo' seen
          else explore f proto (asucc proto x ++ todo') (x :: seen)
      end
  end.

Definition reach (proto : list op) (npaths : nat) : list astate :=
  explore 4000 proto [ainit npaths] [].

(* I contains the initial state and is closed under attempts *)
Definition inv_closed (proto : list op) (npaths : nat) (I : list astate) : bool :=
  amem (ainit npaths) I && forallb (fun x => forallb (fun y => amem y I) (asucc proto x)) I.

Definition inv_safe (watched : list path) (I : list astate) : bool := forallb (asafe watched) I.
Definition inv_noraise (proto : list op) (I : list astate) : bool := forallb (aok proto) I.

(* the model checker: one boolean per protocol *)
Definition check_safe_inv (proto : list op) (npaths : nat) (watched : list path) (I : list astate) : bool :=
  inv_closed proto npaths I && inv_safe watched I.
Definition check_noraise_inv (proto : list op) (npaths : nat) (I : list astate) : bool :=
  inv_closed proto npaths I && inv_noraise proto I.

Definition check_safe (proto : list op) (npaths : nat) (watched : list path) : bool :=
  check_safe_inv proto npaths watched (reach proto npaths).

Definition check_noraise (proto : list op) (npaths : nat) : bool :=
  check_noraise_inv proto npaths (reach proto npaths).

(* ------------------------------------------------------------------ search for a failing history
   (used by the harness when check_safe is false; concrete model, bounded) *)

Definition crash_points (proto : list op) (st : hstate) : list attempt :=
  None :: map Some (seq 0 (S (length (fst (crun (h_next st) proto (h_fs st)))))).

Fixpoint find_unsafe (depth : nat) (proto : list op) (watched : list path) (st : hstate)
  : option (list attempt) :=
  if negb (safe_b watched st) then Some [] else
  match depth with
  | O => None
  | S d =>
      (fix try (l : list attempt) : option (list attempt) :=
         match l with
         | [] => None
         | a :: l' =>
             match find_unsafe d proto watched (step_attempt proto st a) with
             | Some h => Some (a :: h)
             | None => try l'
             end
         end) (crash_points proto st)
  end.

(* encodings for printing: cells and attempts as integers *)
From Coq Require Import ZArith.
Definition cell_code (c : cell) : Z :=
  match c with Absent => (-1)%Z | Partial => (-2)%Z | Complete k => Z.of_nat k end.
Definition attempt_code (a : attempt) : Z :=
  match a with None => (-1)%Z | Some c => Z.of_nat c end.
Definition decode_attempt (z : Z) : attempt := if (z <? 0)%Z then None else Some (Z.to_nat z).

(* ------------------------------------------------------------------ serialisation keys
   (Gen/DumpKeys.v lists, per object kind, the key families the dumper writes and the loader reads) *)
From Coq Require Import String.

Inductive fam :=
| FConst (name : string)                 (* one key *)
| FIdx (prefix : string) (off : nat).    (* prefix_0 ... prefix_{n+off-1}, n = number of sites / nodes *)

Inductive key := KConst (name : string) | KIdx (prefix : string) (i : nat).

Definition expand (n : nat) (f : fam) : list key :=
  match f with
  | FConst s => [KConst s]
  | FIdx p off => map (KIdx p) (seq 0 (n + off))
  end.

Definition keys (n : nat) (fs : list fam) : list key := flat_map (expand n) fs.

Definition fam_covered (ws : list fam) (r : fam) : bool :=
  match r with
  | FConst s => existsb (fun w => match w with FConst s' => String.eqb s s' | _ => false end) ws
  | FIdx p off => existsb (fun w => match w with FIdx p' off' => String.eqb p p' && Nat.leb off off' | _ => false end) ws
  end.

Definition covers (ws rs : list fam) : bool := forallb (fam_covered ws) rs.

(* a kind is fine when the loader accepts the written version and reads only written keys *)
Definition kind_ok (k : string * string * list fam * option (list fam)) : bool :=
  match snd k with
  | Some rs => covers (snd (fst k)) rs
  | None => false
  end.

(* ------------------------------------------------------------------ field-level serialisation
   Generic over the FIELD MAPS generated into Gen/DumpKeys.v: which attribute the dumper stores under
   which key (dentry) and which key the loader reads into which attribute through which conversion
   (lentry).  Tensors, label arrays, qntot, coeff are opaque payloads of an arbitrary type P. *)

Definition key_eqb (a b : key) : bool :=
  match a, b with
  | KConst s, KConst t => String.eqb s t
  | KIdx p i, KIdx q j => String.eqb p q && Nat.eqb i j
  | _, _ => false
  end.

(* conversions the loaders apply to what np.load returns *)
Inductive conv :=
| CNone                (* used as is *)
| CInt                 (* int(x) *)
| CBool                (* bool(x) *)
| CAstypeInt           (* x.astype(int) *)
| CItem0               (* x.item(0) *)
| CAstypeIntTolist     (* x.astype(int).tolist(): an ndarray becomes nested python lists *)
| CLast.               (* x[-1] *)

Inductive dentry :=
| DConstStr (k s : string)           (* d[k] = "s" *)
| DNSites (k : string)               (* d[k] = self.site_num | len(self) *)
| DScalar (k a : string)             (* d[k] = getattr(self, a), a scalar attribute *)
| DLabelList (k : string)            (* d[k] = the whole list of per-bond label arrays (self.qn, re-wrapped as object array) *)
| DTensorFam (pre : string)          (* d[pre_i] = tensor i, i < n *)
| DLabelFam (pre : string) (off : nat). (* d[pre_i] = label array i, i < n + off *)

Inductive lentry :=
| LVersionIn (k : string) (vs : list string)   (* the value under k must be one of vs (assert / version dispatch) *)
| LNSites (k : string) (c : conv)              (* n = c(d[k]) *)
| LTensorFam (pre : string)                    (* tensors = [d[pre_i] for i < n] *)
| LLabelList (k : string) (c : conv)           (* labels = c(d[k]) *)
| LLabelFam (pre : string) (off : nat) (c : conv)  (* labels = [c(d[pre_i]) for i < n + off] *)
| LScalar (a k : string) (c : conv).           (* obj.a = c(d[k]) *)

Section Ser.
  Variable P : Type.

  Inductive value :=
  | VStr (s : string) | VNat (n : nat) | VBool (b : bool)
  | VPay (p : P)            (* an ndarray / scalar as stored *)
  | VPayAsList (p : P)      (* the same data as nested python lists: NOT the same field value *)
  | VList (l : list P).     (* list / object array of label arrays *)

  (* typing of conversions: Some v' = what the loader stores; the round trip needs v' = v *)
  Definition conv_apply (c : conv) (v : value) : option value :=
    match c, v with
    | CNone, _ => Some v
    | CInt, VNat n => Some (VNat n)
    | CBool, VBool b => Some (VBool b)
    | CAstypeInt, VPay p => Some (VPay p)          (* label arrays and qntot are integer arrays *)
    | CItem0, VPay p => Some (VPay p)              (* the prefactor is a scalar *)
    | CAstypeIntTolist, VPay p => Some (VPayAsList p)
    | _, _ => None                                 (* incl. CLast: not the stored value *)
    end.

  Record obj := mk_obj {
    o_tensors : list P;
    o_labels : list P;
    o_scalar : string -> value      (* qnidx, qntot, to_right, coeff, ... by attribute name *)
  }.

  Definition dict := list (key * value).

  (* python dict semantics: the LAST store under a key wins *)
  Fixpoint lookup (k : key) (d : dict) : option value :=
    match d with
    | [] => None
    | (k', v) :: d' =>
        match lookup k d' with
        | Some x => Some x
        | None => if key_eqb k k' then Some v else None
        end
    end.

  Definition emit_fam (pre : string) (l : list P) : dict :=
    map (fun ip => (KIdx pre (fst ip), VPay (snd ip))) (combine (seq 0 (List.length l)) l).

  Definition emit (m : obj) (e : dentry) : dict :=
    match e with
    | DConstStr k s => [(KConst k, VStr s)]
    | DNSites k => [(KConst k, VNat (List.length (o_tensors m)))]
    | DScalar k a => [(KConst k, o_scalar m a)]
    | DLabelList k => [(KConst k, VList (o_labels m))]
    | DTensorFam pre => emit_fam pre (o_tensors m)
    | DLabelFam pre off => emit_fam pre (firstn (List.length (o_tensors m) + off) (o_labels m))
    end.

  Definition dump (dm : list dentry) (m : obj) : dict := flat_map (emit m) dm.

  (* ---- load ---- *)
  Definition bind {A B : Type} (x : option A) (f : A -> option B) : option B :=
    match x with Some a => f a | None => None end.

  Fixpoint mapM {A B : Type} (f : A -> option B) (l : list A) : option (list B) :=
    match l with
    | [] => Some []
    | x :: l' => bind (f x) (fun y => bind (mapM f l') (fun ys => Some (y :: ys)))
    end.

  Definition as_pay (v : value) : option P := match v with VPay p => Some p | _ => None end.
  Definition as_list (v : value) : option (list P) := match v with VList l => Some l | _ => None end.
  Definition as_nat (v : value) : option nat := match v with VNat n => Some n | _ => None end.

  Definition read (d : dict) (k : key) (c : conv) : option value := bind (lookup k d) (conv_apply c).

  Fixpoint versions_ok (lm : list lentry) (d : dict) : bool :=
    match lm with
    | [] => true
    | LVersionIn k vs :: lm' =>
        match lookup (KConst k) d with
        | Some (VStr s) => existsb (String.eqb s) vs && versions_ok lm' d
        | _ => false
        end
    | _ :: lm' => versions_ok lm' d
    end.

  Fixpoint load_nsites (lm : list lentry) (d : dict) : option nat :=
    match lm with
    | [] => None
    | LNSites k c :: _ => bind (read d (KConst k) c) as_nat
    | _ :: lm' => load_nsites lm' d
    end.

  Fixpoint load_tensors (lm : list lentry) (d : dict) (n : nat) : option (list P) :=
    match lm with
    | [] => None
    | LTensorFam pre :: _ => mapM (fun i => bind (lookup (KIdx pre i) d) as_pay) (seq 0 n)
    | _ :: lm' => load_tensors lm' d n
    end.

  Fixpoint load_labels (lm : list lentry) (d : dict) (n : nat) : option (list P) :=
    match lm with
    | [] => None
    | LLabelList k c :: _ => bind (read d (KConst k) c) as_list
    | LLabelFam pre off c :: _ => mapM (fun i => bind (read d (KIdx pre i) c) as_pay) (seq 0 (n + off))
    | _ :: lm' => load_labels lm' d n
    end.

  Fixpoint load_scalars (lm : list lentry) (d : dict) : option (list (string * value)) :=
    match lm with
    | [] => Some []
    | LScalar a k c :: lm' =>
        bind (read d (KConst k) c) (fun v => bind (load_scalars lm' d) (fun r => Some ((a, v) :: r)))
    | _ :: lm' => load_scalars lm' d
    end.

  Fixpoint assoc (a : string) (l : list (string * value)) : option value :=
    match l with
    | [] => None
    | (b, v) :: l' => if String.eqb a b then Some v else assoc a l'
    end.

  (* attributes the loader does not set keep the constructor's default [dflt] *)
  Definition load (lm : list lentry) (dflt : string -> value) (d : dict) : option obj :=
    if versions_ok lm d then
      bind (load_nsites lm d) (fun n =>
      bind (load_tensors lm d n) (fun ts =>
      bind (load_labels lm d n) (fun ls =>
      bind (load_scalars lm d) (fun sc =>
        Some (mk_obj ts ls (fun a => match assoc a sc with Some v => v | None => dflt a end))))))
    else None.
End Ser.

Arguments VStr {P} s. Arguments VNat {P} n. Arguments VBool {P} b. Arguments VPay {P} p.
Arguments VPayAsList {P} p. Arguments VList {P} l.
Arguments o_tensors {P} o. Arguments o_labels {P} o. Arguments o_scalar {P} o _.
Arguments mk_obj {P} _ _ _.
Arguments dump {P} dm m. Arguments load {P} lm dflt d. Arguments conv_apply {P} c v.
Arguments lookup {P} k d. Arguments emit {P} m e. Arguments emit_fam {P} pre l.

(* ---- the boolean the generated maps must satisfy (symbolic: independent of P and of the object) ---- *)

Definition owns_const (e : dentry) (k : string) : bool :=
  match e with
  | DConstStr k' _ | DNSites k' | DScalar k' _ | DLabelList k' => String.eqb k k'
  | _ => false
  end.

Definition owns_fam (e : dentry) (pre : string) : bool :=
  match e with
  | DTensorFam p | DLabelFam p _ => String.eqb pre p
  | _ => false
  end.

(* last writer of a constant key *)
Fixpoint writer_const (dm : list dentry) (k : string) : option dentry :=
  match dm with
  | [] => None
  | e :: dm' =>
      match writer_const dm' k with
      | Some w => Some w
      | None => if owns_const e k then Some e else None
      end
  end.

Definition fam_writers (dm : list dentry) (pre : string) : list dentry := filter (fun e => owns_fam e pre) dm.

Definition conv_keeps_scalar (c : conv) : bool :=
  match c with CNone | CInt | CBool | CAstypeInt | CItem0 => true | _ => false end.
Definition conv_keeps_payload (c : conv) : bool :=
  match c with CNone | CAstypeInt | CItem0 => true | _ => false end.
Definition conv_keeps_list (c : conv) : bool := match c with CNone => true | _ => false end.

Definition lentry_ok (dm : list dentry) (loff : nat) (e : lentry) : bool :=
  match e with
  | LVersionIn k vs =>
      match writer_const dm k with Some (DConstStr _ s) => existsb (String.eqb s) vs | _ => false end
  | LNSites k c =>
      match writer_const dm k with Some (DNSites _) => (match c with CNone | CInt => true | _ => false end) | _ => false end
  | LTensorFam pre =>
      match fam_writers dm pre with [DTensorFam _] => true | _ => false end
  | LLabelList k c =>
      match writer_const dm k with Some (DLabelList _) => conv_keeps_list c | _ => false end
  | LLabelFam pre off c =>
      match fam_writers dm pre with [DLabelFam _ off'] => Nat.eqb off off' && Nat.eqb off loff && conv_keeps_payload c | _ => false end
  | LScalar a k c =>
      match writer_const dm k with Some (DScalar _ a') => String.eqb a a' && conv_keeps_scalar c | _ => false end
  end.

Definition scalar_attrs (lm : list lentry) : list string :=
  flat_map (fun e => match e with LScalar a _ _ => [a] | _ => [] end) lm.

Fixpoint nodupb (l : list string) : bool :=
  match l with [] => true | a :: l' => negb (existsb (String.eqb a) l') && nodupb l' end.

Definition has_nsites (lm : list lentry) : bool := existsb (fun e => match e with LNSites _ _ => true | _ => false end) lm.
Definition has_tensors (lm : list lentry) : bool := existsb (fun e => match e with LTensorFam _ => true | _ => false end) lm.
Definition has_labels (lm : list lentry) : bool :=
  existsb (fun e => match e with LLabelList _ _ | LLabelFam _ _ _ => true | _ => false end) lm.

(* loff = how many more label arrays than tensors the object kind has (chain: 1, tree: 0) *)
Definition maps_ok (dm : list dentry) (lm : list lentry) (loff : nat) : bool :=
  forallb (lentry_ok dm loff) lm && nodupb (scalar_attrs lm) && has_nsites lm && has_tensors lm && has_labels lm.

(* ------------------------------------------------------------------ container kind of what the loader leaves
   in an attribute (a generated fact via the conversions of the load map; later behaviour depends on it:
   a 0-d ndarray prefactor is mutable and is handed on by copy(), an object ndarray of label arrays is
   sliced as a view) *)
Inductive container := KPyScalar | KNdArray | KObjArray | KPyList.

Definition scalar_container (c : conv) : container :=
  match c with
  | CInt | CBool | CItem0 | CLast => KPyScalar      (* int() / bool() / .item(0): immutable python value *)
  | CNone | CAstypeInt => KNdArray                  (* what np.load returns (0-d array for a saved scalar) *)
  | CAstypeIntTolist => KPyList
  end.

Definition loaded_containers (lm : list lentry) : list (string * container) :=
  flat_map (fun e => match e with
                     | LScalar a _ c => [(a, scalar_container c)]
                     | LLabelList _ _ => [("<labels>"%string, KObjArray)]   (* the object array read from the file *)
                     | LLabelFam _ _ _ => [("<labels>"%string, KPyList)]    (* list built by append *)
                     | _ => []
                     end) lm.

(* ------------------------------------------------------------------ side files (dump_mps = "one" / "all")
   candidate-invariant check: in every reachable directory an un-killed dump raises nothing and leaves
   each path of [ps] holding the data of THAT dump *)
Definition inv_post (proto : list op) (ps : list path) (I : list astate) : bool :=
  forallb (fun x => let r := arun proto (fst x) in
                    snd r && forallb (fun p => acell_eqb (cell_at AAbs (last (fst r) (fst x)) p) ACur) ps) I.

Definition check_post_inv (proto : list op) (npaths : nat) (ps : list path) (I : list astate) : bool :=
  inv_closed proto npaths I && inv_post proto ps I.

(* ------------------------------------------------------------------ spill of large site tensors
   (mps/mp.py: _array2mt, __getitem__, __setitem__).  Hand-written model; tied by correspondence.
   A slot holds the tensor itself or the name of a .npy file; the file of slot i is "<dir>/<id(self)>/i.npy",
   so a file is identified by the slot number that wrote it. *)
Section Spill.
  Variable P : Type.
  Variable nbytes : P -> nat.

  Inductive slot := InMem (p : P) | OnDisk (f : nat).

  Record sstate := mk_sstate { s_slots : list slot; s_disk : nat -> option P }.

  Definition disk_set (d : nat -> option P) (f : nat) (v : option P) : nat -> option P :=
    fun g => if Nat.eqb g f then v else d g.

  Fixpoint set_slot (l : list slot) (i : nat) (s : slot) : list slot :=
    match l, i with
    | [], _ => []
    | _ :: l', O => s :: l'
    | x :: l', S i' => x :: set_slot l' i' s
    end.

  (* _array2mt(array, idx): np.save(dir/idx.npy) when dump_matrix_size < nbytes *)
  Definition array2mt (limit : nat) (idx : nat) (a : P) (d : nat -> option P) : slot * (nat -> option P) :=
    if Nat.ltb limit (nbytes a) then (OnDisk idx, disk_set d idx (Some a)) else (InMem a, d).

  (* __setitem__(key, array): os.remove(old file) if the old entry is a file name; then _array2mt *)
  Definition setitem (limit : nat) (key : nat) (a : P) (st : sstate) : sstate :=
    let d1 := match nth_error (s_slots st) key with
              | Some (OnDisk f) => disk_set (s_disk st) f None
              | _ => s_disk st
              end in
    let r := array2mt limit key a d1 in
    mk_sstate (set_slot (s_slots st) key (fst r)) (snd r).

  (* __getitem__(key): np.load(file) for a file name (None = "MPS internal structure corrupted") *)
  Definition getitem (key : nat) (st : sstate) : option P :=
    match nth_error (s_slots st) key with
    | Some (InMem p) => Some p
    | Some (OnDisk f) => s_disk st f
    | None => None
    end.

  (* invariant: a slot that is a file name names ITS OWN file and the file exists; every file on disk
     belongs to the slot of the same number *)
  Definition spill_inv (st : sstate) : Prop :=
    (forall i f, nth_error (s_slots st) i = Some (OnDisk f) -> f = i /\ s_disk st f <> None) /\
    (forall f, s_disk st f <> None -> nth_error (s_slots st) f = Some (OnDisk f)).

  Definition files_on_disk (st : sstate) : list nat :=
    filter (fun f => match s_disk st f with Some _ => true | None => false end) (seq 0 (List.length (s_slots st))).
End Spill.

Arguments InMem {P} p. Arguments OnDisk {P} f.
Arguments s_slots {P} s. Arguments s_disk {P} s _. Arguments mk_sstate {P} _ _.
Arguments setitem {P} nbytes limit key a st. Arguments getitem {P} key st.
Arguments spill_inv {P} st. Arguments files_on_disk {P} st.
