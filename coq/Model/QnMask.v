(* Quantum-number masks of one-site and two-site updates (mp.py: _get_big_qn + svd_qn.add_outer + get_qn_mask),
   and the label part of a sweep step (mp.py: _update_ms after svd_qn), generic over the label type.
   No proofs (Proofs/QnMaskProofs.v).

   _get_big_qn([idx])        qnl = qn[idx], qnr = qn[idx+1], sigmaqn of the site
        to_right:   qnbigl = add_outer(qnl, sigma), qnbigr = qnr
        otherwise:  qnbigl = qnl,                   qnbigr = add_outer(sigma, qnr)
   _get_big_qn([idx, idx+1]) qnbigl = add_outer(qn[idx], sigma_idx), qnbigr = add_outer(sigma_{idx+1}, qn[idx+2])
   qnmat = add_outer(qnbigl, qnbigr);  get_qn_mask(qnmat, qntot) = np.all(qnmat == qntot, axis=-1)
   The mask is indexed like the site tensor: [l, p, r] resp. [l, p1, p2, r].  The code asserts qnidx in cidx. *)
From Coq Require Import List Arith Bool ZArith.
Import ListNotations.
From RV Require Import Base.CRing Base.BigSum Model.Chain Model.Mp Model.Qn.

Section MaskL.
Variable L : LabOps.

Definition sig_at (sg : list (lab L)) (m : meta L) (p : nat) : lab L := nth p sg (lzero_like L (qntot m)).

Definition mask1 (sg : list (lab L)) (m : meta L) (i l p r : nat) : bool :=
  let a := qn_at m i l in let b := qn_at m (S i) r in let s := sig_at sg m p in
  leqb L (if to_right m then ladd L (ladd L a s) b else ladd L a (ladd L s b)) (qntot m).

Definition mask2 (sg1 sg2 : list (lab L)) (m : meta L) (i l p1 p2 r : nat) : bool :=
  let a := qn_at m i l in let b := qn_at m (S (S i)) r in
  leqb L (ladd L (ladd L a (sig_at sg1 m p1)) (ladd L (sig_at sg2 m p2) b)) (qntot m).

(* tabulations in the layout of the boolean arrays the code produces *)
Definition mask1_tab (sg : list (lab L)) (m : meta L) (i : nat) : list (list (list bool)) :=
  map (fun l => map (fun p => map (fun r => mask1 sg m i l p r) (seq 0 (length (nth (S i) (qn m) []))))
                    (seq 0 (length sg))) (seq 0 (length (nth i (qn m) []))).
Definition mask2_tab (sg1 sg2 : list (lab L)) (m : meta L) (i : nat) : list (list (list (list bool))) :=
  map (fun l => map (fun p1 => map (fun p2 => map (fun r => mask2 sg1 sg2 m i l p1 p2 r)
        (seq 0 (length (nth (S (S i)) (qn m) [])))) (seq 0 (length sg2))) (seq 0 (length sg1)))
      (seq 0 (length (nth i (qn m) []))).

(* _update_ms:  to_right: self.qn[idx + 1] = qnlset[:m_trunc]; self.qnidx = idx + 1
                otherwise: self.qn[idx]     = qnrset[:m_trunc]; self.qnidx = idx - 1          (j = the bond re-labelled) *)
Fixpoint set_nth_list {A} (j : nat) (v : A) (q : list A) {struct q} : list A :=
  match q, j with
  | [], _ => []
  | _ :: t, O => v :: t
  | x :: t, S j' => x :: set_nth_list j' v t
  end.
Definition set_bond (m : meta L) (j : nat) (newq : list (lab L)) (newidx : nat) : meta L :=
  {| qn := set_nth_list j newq (qn m); qnidx := newidx; qntot := qntot m; to_right := to_right m |}.

End MaskL.

Arguments mask1 {L} sg m i l p r.
Arguments mask2 {L} sg1 sg2 m i l p1 p2 r.
Arguments mask1_tab {L} sg m i.
Arguments mask2_tab {L} sg1 sg2 m i.
Arguments set_bond {L} m j newq newidx.
Arguments set_nth_list {A} j v q.

(* replacing one / two adjacent sites of a chain *)
Section Replace.
Variable R : CRing.
Fixpoint set_site (i : nat) (x : nat * T3 R) (ts : list (nat * T3 R)) {struct ts} : list (nat * T3 R) :=
  match ts, i with
  | [], _ => []
  | _ :: t, O => x :: t
  | y :: t, S i' => y :: set_site i' x t
  end.
Fixpoint set_site2 (i : nat) (x y : nat * T3 R) (ts : list (nat * T3 R)) {struct ts} : list (nat * T3 R) :=
  match ts, i with
  | _ :: _ :: t, O => x :: y :: t
  | z :: t, S i' => z :: set_site2 i' x y t
  | _, _ => ts
  end.
(* tensordot(vt, self[idx + 1], axes=1): the remainder of the factorisation is absorbed by the next site *)
Definition absorb_left (dk : nat) (Rm : nat -> nat -> R) (t : T3 R) : T3 R :=
  fun a p r => sumn dk (fun b => rmul R (Rm a b) (t b p r)).
End Replace.
Arguments set_site {R} i x ts.
Arguments set_site2 {R} i x y ts.
Arguments absorb_left {R} dk Rm t.

(* comparison of boolean tabulations (exchange with the implementation): number of differing entries *)
Fixpoint bdiff1 (x y : list bool) : Z :=
  match x, y with
  | [], [] => 0%Z
  | a :: x', b :: y' => ((if Bool.eqb a b then 0 else 1) + bdiff1 x' y')%Z
  | _, _ => 1000000%Z
  end.
Definition bdiff3 : list (list (list bool)) -> list (list (list bool)) -> Z := count_neq_gen (count_neq_gen bdiff1).
Definition bdiff4 : list (list (list (list bool))) -> list (list (list (list bool))) -> Z := count_neq_gen bdiff3.

(* tensordot(self[idx - 1], u, axes=1): sweep to the left *)
Definition absorb_right {R : CRing} (dk : nat) (t : T3 R) (Um : nat -> nat -> R) : T3 R :=
  fun l p a => sumn dk (fun b => rmul R (t l p b) (Um b a)).
