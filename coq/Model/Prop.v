(* Propagate-and-compress evolution schemes of renormalizer/mps/mps.py as abstract module semantics
   (no truncation: bond limit sufficient, so canonicalise()/compress() are the identity on the
   represented vector and `add` is vector addition).  No proofs in this file.

   K      commutative ring of scalars (complex numbers in the code); rational constants of the source
          (tableau entries, 1/k!, 0.5, 1/6, 2/6) enter through  inj : Q -> K
   V      the K-module of represented vectors (tensors x prefactor), operations madd / mscale / mzero
   H t    mpo_t(t).contract(.)  -- for every time a map V -> V (linearity is a hypothesis of the proofs)
   mi     the constant -1j of  .scale(-1j)

   Code mirrored (line numbers of /repo HEAD):
     compressed_sum                      mps/lib.py:417      -> csum_fuel / csum / csumT
     _evolve_prop_and_compress_tdrk      mps/mps.py:701      -> rk_terms / rk_stages / rk_row / rk_step / rk_error
     _evolve_prop_and_compress_tdrk4     mps/mps.py:664      -> tdrk4
     _evolve_prop_and_compress           mps/mps.py:794      -> termlist / taylor_scaled / taylor_step / taylor_pair
   Specification side:  pev X p w = sum_k inj(p_k) . X^k w                                              *)
From Coq Require Import QArith ZArith List Arith Bool.
Import ListNotations.
From RV Require Import Base.CRing Base.BigSum Gen.RkTableaux Model.Rk Model.Chain.
Close Scope Q_scope.

Section PropModel.
Variable K : CRing.
Variable inj : Q -> K.
Variable V : Type.
Variable mzero : V.
Variable madd : V -> V -> V.
Variable mscale : K -> V -> V.
Variable H : K -> V -> V.
Variable mi : K.

Notation "x *k y" := (rmul K x y) (at level 40, left associativity).
Notation "x +k y" := (radd K x y) (at level 50, left associativity).

(* reduce(lambda a, b: a.add(b), x :: xs) *)
Definition vsum1 (x : V) (xs : list V) : V := fold_left madd xs x.

(* compressed_sum(mps_list, batchsize): a deque; while more than one element is queued, pop
   min(batchsize, len) elements from the left, add them up (_sum), append the sum on the right.
   len = 0 is an assertion failure, a batch of 0 elements makes reduce() raise (both: None);
   batchsize = 1 never terminates (out of fuel: None).  A single element is returned as a
   canonicalised, compressed copy = the same vector. *)
Fixpoint csum_fuel (fuel b : nat) (q : list V) : option V :=
  match fuel with
  | O => None
  | S f =>
    match q with
    | [] => None
    | [x] => Some x
    | _ => let n := Nat.min b (length q) in
           match firstn n q with
           | [] => None
           | h :: t => csum_fuel f b (skipn n q ++ [vsum1 h t])
           end
    end
  end.
Definition csum (b : nat) (q : list V) : option V := csum_fuel (length q) b q.
Definition csumT (b : nat) (q : list V) : V := match csum b q with Some v => v | None => mzero end.

(* the mathematical sum of a list of vectors *)
Definition bigsum (q : list V) : V := fold_right madd mzero q.

(* ---------------------------------------------------------------- general explicit RK ------- *)
(* [k_list[i].scale(coef[i]*tau) for i in range(len(k_list)) if coef[i] != 0] *)
Definition rk_terms (tau : K) (coef : list Q) (ks : list V) : list V :=
  flat_map (fun p => if Qeq_bool (fst p) 0 then [] else [mscale (inj (fst p) *k tau) (snd p)])
           (combine coef ks).

(* for istage in range(stage):
     k = compressed_sum([y] + [k_list[i].scale(a[istage,i]*tau) for i in range(istage) if a[istage,i] != 0], batchsize=6)
     k = mpo_t(c[istage]*tau+t0).contract(k).scale(-1j);  k_list.append(k)
   (rows of a and entries of c are consumed in step; stage = number of rows of a, checked by the
   translator and by shape_ok) *)
Fixpoint rk_stages (tau t0 : K) (y : V) (arows : list (list Q)) (cs : list Q) (ks : list V) : list V :=
  match arows with
  | [] => ks
  | ai :: rest =>
      let arg := csumT 6 (y :: rk_terms tau ai ks) in
      let k := mscale mi (H (inj (hd 0%Q cs) *k tau +k t0) arg) in
      rk_stages tau t0 y rest (tl cs) (ks ++ [k])
  end.

Definition rk_klist (t : tableau) (tau t0 : K) (y : V) : list V :=
  rk_stages tau t0 y (t_a t) (t_c t) [].

(* new_mps = compressed_sum([y] + [k_list[i].scale(b[r,i]*tau) for i in range(stage) if b[r,i] != 0], batchsize=6)
   r = 0 is the propagated solution; r = 1 the embedded lower-order solution (only its difference
   to row 0 is formed by the code, see rk_error) *)
Definition rk_row (t : tableau) (r : nat) (tau t0 : K) (y : V) : V :=
  csumT 6 (y :: rk_terms tau (nth r (t_b t) []) (rk_klist t tau t0 y)).
Definition rk_step (t : tableau) (tau t0 : K) (y : V) : V := rk_row t 0 tau t0 y.

(* error vector of the adaptive branch: reduce(add, [k_i.scale((b[0,i]-b[1,i])*tau) for i if not allclose(b[0,i], b[1,i])])
   (allclose modelled by exact comparison) *)
Definition rk_error (t : tableau) (tau t0 : K) (y : V) : V :=
  let diff := map (fun p => (fst p - snd p)%Q) (combine (nth 0 (t_b t) []) (nth 1 (t_b t) [])) in
  match rk_terms tau diff (rk_klist t tau t0 y) with
  | [] => mzero
  | h :: tl_ => vsum1 h tl_
  end.

(* ---------------------------------------------------------------- hard-coded RK4 ------------ *)
Definition tdrk4 (dt : K) (y : V) : V :=
  let half := inj (1 # 2) *k dt in
  let k1 := mscale mi (H (r0 K) y) in
  let tmp1 := madd y (mscale half k1) in
  let k2 := mscale mi (H half tmp1) in
  let tmp2 := madd y (mscale half k2) in
  let k3 := mscale mi (H half tmp2) in
  let tmp3 := madd y (mscale dt k3) in
  let k4 := mscale mi (H dt tmp3) in
  csumT 5 [y; mscale (inj (1 # 6) *k dt) k1; mscale (inj (2 # 6) *k dt) k2;
              mscale (inj (2 # 6) *k dt) k3; mscale (inj (1 # 6) *k dt) k4].

(* ---------------------------------------------------------------- Taylor -------------------- *)
(* termlist = [self]; while len(termlist) < len(propagation_c): termlist.append(mpo.contract(termlist[-1])) *)
Fixpoint termlist (H0 : V -> V) (n : nat) (last : V) : list V :=
  match n with O => [] | S m => let nx := H0 last in nx :: termlist H0 m nx end.
Definition taylor_terms (H0 : V -> V) (N : nat) (y : V) : list V := y :: termlist H0 N y.

Fixpoint rpow (x : K) (n : nat) : K := match n with O => r1 K | S m => x *k rpow x m end.

(* term.scale((-1.0j * dt) ** idx * propagation_c[idx]);  propagation_c = [taylor_coeff i for i in range(N+1)] *)
Definition taylor_scaled (H0 : V -> V) (dt : K) (N : nat) (y : V) : list V :=
  map (fun p => mscale (rpow (mi *k dt) (fst p) *k inj (taylor_coeff (fst p))) (snd p))
      (combine (seq 0 (S N)) (taylor_terms H0 N y)).

(* non-adaptive: compressed_sum(termlist) with the default batch size 5 *)
Definition taylor_step (H0 : V -> V) (dt : K) (N : nat) (y : V) : V := csumT 5 (taylor_scaled H0 dt N y).

(* adaptive: new_mps1 = compressed_sum(scaled[:-1]); new_mps2 = compressed_sum([new_mps1, scaled[-1]]) *)
Definition taylor_pair (H0 : V -> V) (dt : K) (N : nat) (y : V) : V * V :=
  let s := taylor_scaled H0 dt N y in
  let m1 := csumT 5 (removelast s) in
  (m1, csumT 5 [m1; last s mzero]).

(* ---------------------------------------------------------------- specification ------------- *)
(* pev X p w = sum_k inj(p_k) . X^k w *)
Fixpoint pev (X : V -> V) (p : list Q) (w : V) : V :=
  match p with
  | [] => mzero
  | c :: r => madd (mscale (inj c) w) (pev X r (X w))
  end.

(* the step operator  X = (mi * dt) . H0   ( = -i dt H in real time, -tau H in imaginary time ) *)
Definition stepop (H0 : V -> V) (dt : K) (v : V) : V := mscale (mi *k dt) (H0 v).

End PropModel.

(* shape of a tableau as the translator guarantees it (a is stage x stage, rows of b have length stage,
   at least one row of b) *)
Definition shape_ok (t : tableau) : bool :=
  Nat.eqb (length (t_a t)) (t_stage t)
  && forallb (fun r => Nat.eqb (length r) (t_stage t)) (t_a t)
  && forallb (fun r => Nat.eqb (length r) (t_stage t)) (t_b t)
  && Nat.leb 1 (length (t_b t)).

(* Taylor coefficient list of order N:  [taylor_coeff 0; ...; taylor_coeff N]  (TaylorExpansion(N).coeff) *)
Definition tcoefs (N : nat) : list Q := map taylor_coeff (seq 0 (S N)).

Fixpoint qeq_list (a b : list Q) : bool :=
  match a, b with
  | [], [] => true
  | x :: a', y :: b' => Qeq_bool x y && qeq_list a' b'
  | _, _ => false
  end.

(* row r of the constant-coefficient expansion starts with the exponential series up to the advertised
   order p_r of that row: d = [1/0!; ...; 1/p!] ++ (the remaining coefficients of d) *)
Definition order_prefix_ok (t : tableau) (r : nat) : bool :=
  let d := nth r (ti_coeff t) [] in
  let p := nth r (t_order t) 0%nat in
  qeq_list d (tcoefs p ++ skipn (S p) d).

(* ---- hypotheses of the theorems, bundled ---- *)
Record inj_hom (K : CRing) (inj : Q -> K) : Prop := {
  ih_eq : forall a b : Q, Qeq a b -> inj a = inj b;
  ih_add : forall a b : Q, inj (Qplus a b) = radd K (inj a) (inj b);
  ih_mul : forall a b : Q, inj (Qmult a b) = rmul K (inj a) (inj b);
  ih_1 : inj 1%Q = r1 K }.

Record module_laws (K : CRing) (V : Type) (mzero : V) (madd : V -> V -> V) (mscale : K -> V -> V) : Prop := {
  ml_comm : forall u v, madd u v = madd v u;
  ml_assoc : forall u v w, madd (madd u v) w = madd u (madd v w);
  ml_0_r : forall u, madd u mzero = u;
  ml_add_r : forall a u v, mscale a (madd u v) = madd (mscale a u) (mscale a v);
  ml_add_l : forall a b u, mscale (radd K a b) u = madd (mscale a u) (mscale b u);
  ml_mul : forall a b u, mscale (rmul K a b) u = mscale a (mscale b u);
  ml_1 : forall u, mscale (r1 K) u = u;
  ml_0 : forall u, mscale (r0 K) u = mzero }.

Record linear (K : CRing) (V : Type) (madd : V -> V -> V) (mscale : K -> V -> V) (F : V -> V) : Prop := {
  lin_add : forall u v, F (madd u v) = madd (F u) (F v);
  lin_scale : forall a u, F (mscale a u) = mscale a (F u) }.

(* the scalars used for the executable instance and the Examples: canonical rationals *)
From Coq Require Import Qcanon.
Definition QcRing : CRing.
Proof.
  refine {| car := Qc; r0 := 0%Qc; r1 := 1%Qc; radd := Qcplus; rmul := Qcmult; rsub := Qcminus; ropp := Qcopp;
            rcj := fun x => x; rth := Qcrt |}; intros; reflexivity.
Defined.

(* Gaussian rationals Qc[i]: the executable instance with mi = -i *)
Definition gq := (Qc * Qc)%type.
Definition gq_add (x y : gq) : gq := (fst x + fst y, snd x + snd y)%Qc.
Definition gq_mul (x y : gq) : gq := (fst x * fst y - snd x * snd y, fst x * snd y + snd x * fst y)%Qc.
Definition gq_opp (x : gq) : gq := (- fst x, - snd x)%Qc.
Definition gq_sub (x y : gq) : gq := (fst x - fst y, snd x - snd y)%Qc.
Definition gq_cj (x : gq) : gq := (fst x, - snd x)%Qc.
Lemma gq_th : ring_theory (0, 0)%Qc (1, 0)%Qc gq_add gq_mul gq_sub gq_opp (@eq gq).
Proof.
  constructor; intros; repeat match goal with x : gq |- _ => destruct x | x : (_ * _)%type |- _ => destruct x end;
    unfold gq_add, gq_mul, gq_sub, gq_opp; cbn [fst snd]; apply pair_equal_spec; split; ring.
Qed.
Definition GqRing : CRing.
Proof.
  refine {| car := gq; r0 := (0, 0)%Qc; r1 := (1, 0)%Qc; radd := gq_add; rmul := gq_mul; rsub := gq_sub;
            ropp := gq_opp; rcj := gq_cj; rth := gq_th |};
  intros; repeat match goal with x : gq |- _ => destruct x | x : (_ * _)%type |- _ => destruct x end;
    unfold gq_add, gq_mul, gq_sub, gq_opp, gq_cj; cbn [fst snd]; try (apply pair_equal_spec; split; ring); reflexivity.
Defined.
Definition gq_inj (q : Q) : GqRing := (Q2Qc q, 0%Qc).
Definition gq_mi : GqRing := (Q2Qc 0, Qcopp (Q2Qc 1)).

(* ================================================================== C10: closed-form propagator ==== *)
(* Mpo.exact_propagator(model, x, "GS", shift)  (mps/mpo.py:34): bond dimension one; an electronic site
   carries the identity, a vibrational site of frequency omega the diagonal exp(x*omega*n); finally the
   tensor at qnidx = last site is multiplied by exp(shift*x)  (MatrixProduct.scale).
   expo : K -> K is the exponential, abstract; its laws are hypotheses of the proofs.
   A site is described by  None (electronic)  |  Some omega (vibrational). *)
Section ExactProp.
Variable K : CRing.
Variable expo : K -> K.

Fixpoint nk (n : nat) : K := match n with O => r0 K | S m => radd K (nk m) (r1 K) end.

Definition local_diag (x : K) (w : option K) : T4 K :=
  fun _ pu pd _ => if Nat.eqb pu pd then (match w with None => r1 K | Some om => expo (rmul K (rmul K x om) (nk pu)) end)
                   else r0 K.
Definition scaleT (c : K) (t : T4 K) : T4 K := fun l pu pd r => rmul K (t l pu pd r) c.

Fixpoint ep_sites (x c : K) (ws : list (option K)) : list (nat * T4 K) :=
  match ws with
  | [] => []
  | [w] => [(1%nat, scaleT c (local_diag x w))]
  | w :: rest => (1%nat, local_diag x w) :: ep_sites x c rest
  end.
Definition exact_prop (x shift : K) (ws : list (option K)) : list (nat * T4 K) :=
  ep_sites x (expo (rmul K shift x)) ws.

(* sum_k omega_k n_k over the vibrational sites *)
Fixpoint vib_energy (ws : list (option K)) (s : list nat) : K :=
  match ws, s with
  | w :: ws', n :: s' => radd K (match w with None => r0 K | Some om => rmul K om (nk n) end) (vib_energy ws' s')
  | _, _ => r0 K
  end.

Fixpoint cfg_eqb (a b : list nat) : bool :=
  match a, b with
  | [], [] => true
  | x :: a', y :: b' => Nat.eqb x y && cfg_eqb a' b'
  | _, _ => false
  end.

(* ---- Mps.evolve_exact / MpDm.evolve_exact as operations on (prefactor, tensors), with the input
   object observable after the call.  V = represented tensors-vector (any K-module), [papply P v] = the
   propagator applied to it.  phase_on_result is read from the source (Gen/EvolveExact.v). *)
Variable V : Type.
Record obj := { coeff : K; vec : V }.
Definition evolve_exact_model (phase_on_result : bool) (papply : V -> V) (phase : K) (self : obj) : obj * obj :=
  let new := {| coeff := coeff self; vec := papply (vec self) |} in     (* MPOprop.apply(self): metadata incl. coeff copied *)
  if phase_on_result then ({| coeff := rmul K (coeff new) phase; vec := vec new |}, self)
  else (new, {| coeff := rmul K (coeff self) phase; vec := vec self |}).
End ExactProp.

(* ================================================================== C10: thermal step loop ========= *)
(* ThermalProp.evolve: every step evolves by -i*tau with the Hamiltonian re-offset by the latest energy
   (a positive scalar factor f_k = exp(tau*e_k) on the step operator A = exp(-tau H)) and normalises. *)
Section Thermal.
Variable K : CRing.
Variable V : Type.
Variable mscale : K -> V -> V.
Variable A : V -> V.           (* one imaginary-time step, un-normalised *)
Variable N : V -> V.           (* normalisation *)
Fixpoint thermal_loop (fs : list K) (psi : V) : V :=
  match fs with [] => psi | f :: rest => thermal_loop rest (N (mscale f (A psi))) end.
End Thermal.

(* ================================================================== C10: purified density operators ======== *)
Section Purified.
Variable K : CRing.
(* MpDm.from_mps: mo[:, i, i, :] = ms[:, i, :]  (zero elsewhere) *)
Definition from_mps_site (t : T3 K) : T4 K := fun l pu pd r => if Nat.eqb pu pd then t l pu r else r0 K.
Definition from_mps (ts : list (nat * T3 K)) : list (nat * T4 K) := map (fun dt => (fst dt, from_mps_site (snd dt))) ts.

(* Mps.ground_state(model, max_entangled=True): bond dimension one; an electronic site is |0>, a vibrational site with
   pdim levels has all entries equal to c (1/sqrt(pdim) when normalised, 1 otherwise).  A site is None (electronic) or
   Some c (vibrational with entry c). *)
Definition me_site (w : option K) : T3 K :=
  fun _ p _ => match w with None => if Nat.eqb p 0 then r1 K else r0 K | Some c => c end.
Definition max_entangled_gs_mps (ws : list (option K)) : list (nat * T3 K) := map (fun w => (1%nat, me_site w)) ws.
Definition max_entangled_gs (ws : list (option K)) : list (nat * T4 K) := from_mps (max_entangled_gs_mps ws).

(* the constant on the diagonal: product of the vibrational entries, times [all electronic indices are 0] *)
Fixpoint me_weight (ws : list (option K)) (s : list nat) : K :=
  match ws, s with
  | w :: ws', p :: s' => rmul K (match w with None => if Nat.eqb p 0 then r1 K else r0 K | Some c => c end) (me_weight ws' s')
  | _, _ => r1 K
  end.
End Purified.
