(* C08 -- the tree optimiser: schedule of renormalizer/tn/gs.py (optimize_ttns, optimize_recursion) and of the
   environment cache renormalizer/tn/tree.py:TTNEnviron (__init__, build_children_environ, build_parent_environ,
   update_2site, build_children_environ_node, build_parent_environ_node) together with the environment reads of
   renormalizer/tn/hop_expr.py:hop_expr2, over a version-stamped store.  Hand model (tx/sweepsched.py pins the
   source of these functions and fails closed when they change; harness/c08.py compares event traces).

   A tree is given by its shape only; a node is addressed by its path (child indices from the root).
   Every node tensor has a version (bumped by TTNS.update_2site: node first, then parent).  Every node v caches
     environ_parent        key (v, SParent)   -- built from everything that is NOT in the subtree of v
     environ_children[g]   key (v, SChild g)  -- built from the subtree of the g-th child of v
   and a cached environment carries a STAMP: which node tensors, at which version, were contracted into it
   (a partial map path -> version).  [spec] is the stamp an environment must carry now.  Every environment that
   is read (by hop_expr2 for the local problem, or by a build_* function to make another environment) is recorded
   as an observation (found, expected).  No proofs here (Proofs/TreeOptProofs.v).                              *)
From Coq Require Import List Arith Bool.
Import ListNotations.

Inductive tree := Node (cs : forest)
with forest := FNil | FCons (t : tree) (f : forest).

Fixpoint flen (f : forest) : nat := match f with FNil => 0 | FCons _ r => S (flen r) end.
Definition kids (t : tree) : forest := match t with Node f => f end.
Definition nch (t : tree) : nat := flen (kids t).
Fixpoint fnth (f : forest) (i : nat) : option tree :=
  match f, i with
  | FNil, _ => None
  | FCons t _, O => Some t
  | FCons _ r, S j => fnth r j
  end.

Definition path := list nat.
Fixpoint sub (t : tree) (w : path) : option tree :=
  match w with
  | [] => Some t
  | i :: w' => match fnth (kids t) i with Some c => sub c w' | None => None end
  end.
Definition valid (t : tree) (w : path) : bool := match sub t w with Some _ => true | None => false end.

Fixpoint is_prefix (a w : path) : bool :=
  match a, w with
  | [], _ => true
  | x :: a', y :: w' => (x =? y) && is_prefix a' w'
  | _ :: _, [] => false
  end.
Fixpoint path_eqb (a b : path) : bool :=
  match a, b with
  | [], [] => true
  | x :: a', y :: b' => (x =? y) && path_eqb a' b'
  | _, _ => false
  end.

Inductive slot := SParent | SChild (i : nat).
Definition slot_eqb (a b : slot) : bool :=
  match a, b with SParent, SParent => true | SChild i, SChild j => i =? j | _, _ => false end.
Definition key := (path * slot)%type.
Definition key_eqb (a b : key) : bool := path_eqb (fst a) (fst b) && slot_eqb (snd a) (snd b).

Definition stamp := path -> option nat.

Inductive event :=
| EvRead (k : key)                 (* an environment tensor goes into a contraction *)
| EvWrite (k : key)                (* build_children_environ_node / build_parent_environ_node stores its result *)
| EvSolve (c : path)               (* optimize_2site(c): the two-site problem of c and its parent *)
| EvUpd (c : path) (cano_parent : bool).   (* TTNS.update_2site(c, ...): c.tensor, then c.parent.tensor *)

Record obs := mkObs { o_key : key; o_found : stamp; o_expect : stamp }.
Definition obs_ok (o : obs) : Prop := forall w, o_found o w = o_expect o w.

Record st := mkSt { ver : path -> nat; env : key -> stamp; log : list event; obsl : list obs }.

Section Tree.
Variable T : tree.        (* the whole tree *)

(* what (v, slot) must have been built from *)
Definition dep (k : key) (w : path) : bool :=
  match snd k with
  | SChild g => is_prefix (fst k ++ [g]) w
  | SParent => negb (is_prefix (fst k) w)
  end.
Definition spec (vr : path -> nat) (k : key) : stamp :=
  fun w => if valid T w && dep k w then Some (vr w) else None.

Definition rd (k : key) (s : st) : st :=
  mkSt (ver s) (env s) (EvRead k :: log s) (mkObs k (env s k) (spec (ver s) k) :: obsl s).
Definition wr (k : key) (x : stamp) (s : st) : st :=
  mkSt (ver s) (fun k' => if key_eqb k' k then x else env s k') (EvWrite k :: log s) (obsl s).
Definition bump (v : path) (s : st) : st :=
  mkSt (fun w => if path_eqb w v then S (ver s w) else ver s w) (env s) (log s) (obsl s).
Definition ev (e : event) (s : st) : st := mkSt (ver s) (env s) (e :: log s) (obsl s).

Definition rds (ks : list key) (s : st) : st := fold_left (fun s k => rd k s) ks s.

Fixpoint first_some (l : list (option nat)) : option nat :=
  match l with [] => None | Some x :: _ => Some x | None :: r => first_some r end.

(* keys of the child environments of v, optionally without slot i *)
Definition child_keys (v : path) (n : nat) : list key := map (fun g => (v, SChild g)) (seq 0 n).
Definition child_keys_but (v : path) (n i : nat) : list key :=
  map (fun g => (v, SChild g)) (filter (fun g => negb (g =? i)) (seq 0 n)).

(* build_children_environ_node(v), v = p ++ [i] with nc children: env(v -> p), stored in p.environ_children[i] *)
Definition bc (p : path) (i nc : nat) (s : st) : st :=
  let v := p ++ [i] in
  let s1 := rds (child_keys v nc) s in
  wr (p, SChild i)
     (fun w => if path_eqb w v then Some (ver s v) else first_some (map (fun k => env s k w) (child_keys v nc))) s1.

(* build_parent_environ_node(v, i), v with np children: env(v -> its i-th child), stored in the child's environ_parent *)
Definition bp (v : path) (i np : nat) (s : st) : st :=
  let s1 := rd (v, SParent) (rds (child_keys_but v np i) s) in
  wr (v ++ [i], SParent)
     (fun w => if path_eqb w v then Some (ver s v)
               else match first_some (map (fun k => env s k w) (child_keys_but v np i)) with
                    | Some x => Some x
                    | None => env s (v, SParent) w
                    end) s1.

(* TTNEnviron.update_2site(c), c = p ++ [i]; up = Some (pp, pi) when p = pp ++ [pi], None when p is the root *)
Definition env_update (p : path) (up : option (path * nat)) (np i nc : nat) (s : st) : st :=
  let c := p ++ [i] in
  let s1 := bc p i nc s in
  let s2 := match up with Some (pp, pi) => bc pp pi np s1 | None => s1 end in
  let s3 := fold_left (fun s i' => bp p i' np s) (seq 0 np) s2 in
  fold_left (fun s g => bp c g nc s) (seq 0 nc) s3.

(* hop_expr2(c): child environments of c, child environments of the parent except c's own, the parent's environ_parent *)
Definition solve (p : path) (np i nc : nat) (s : st) : st :=
  let c := p ++ [i] in
  ev (EvSolve c) (rd (p, SParent) (rds (child_keys_but p np i) (rds (child_keys c nc) s))).

Definition upd (p : path) (i : nat) (cano_parent : bool) (s : st) : st :=
  bump p (bump (p ++ [i]) (ev (EvUpd (p ++ [i]) cano_parent) s)).

(* optimize_recursion(snode) with snode at path p *)
Fixpoint opt_tree (t : tree) (p : path) (up : option (path * nat)) (s : st) : st :=
  match t with Node f => opt_forest f (flen f) p up 0 s end
with opt_forest (f : forest) (np : nat) (p : path) (up : option (path * nat)) (i : nat) (s : st) : st :=
  match f with
  | FNil => s
  | FCons c rest =>
      let nc := nch c in
      let s1 := if 0 <? nc
                then opt_tree c (p ++ [i]) (Some (p, i))
                       (env_update p up np i nc (upd p i false (solve p np i nc s)))
                else s in
      let s2 := env_update p up np i nc (upd p i true (solve p np i nc s1)) in
      opt_forest rest np p up (S i) s2
  end.

(* TTNEnviron.__init__: build_children_environ (postorder), then build_parent_environ (preorder) *)
Fixpoint up_tree (t : tree) (p : path) (up : option (path * nat)) (s : st) : st :=
  match t with Node f =>
    let s1 := up_forest f p 0 s in
    match up with Some (pp, pi) => bc pp pi (flen f) s1 | None => s1 end
  end
with up_forest (f : forest) (p : path) (i : nat) (s : st) : st :=
  match f with
  | FNil => s
  | FCons c rest => up_forest rest p (S i) (up_tree c (p ++ [i]) (Some (p, i)) s)
  end.

Fixpoint down_tree (t : tree) (p : path) (s : st) : st :=
  match t with Node f =>
    down_forest f p 0 (fold_left (fun s i' => bp p i' (flen f) s) (seq 0 (flen f)) s)
  end
with down_forest (f : forest) (p : path) (i : nat) (s : st) : st :=
  match f with
  | FNil => s
  | FCons c rest => down_forest rest p (S i) (down_tree c (p ++ [i]) s)
  end.

Definition init (vr : path -> nat) : st :=
  down_tree T [] (up_tree T [] None (mkSt vr (fun _ _ => None) [] [])).

Fixpoint sweeps (k : nat) (s : st) : st :=
  match k with O => s | S k' => sweeps k' (opt_tree T [] None s) end.

(* optimize_ttns(ttns, ttno, procedure) with k entries in the procedure *)
Definition optimize (k : nat) (vr : path -> nat) : st := sweeps k (init vr).

End Tree.

(* ------------------------------------------------------------------ exchange format / run-time cross-check *)
Fixpoint all_paths_t (t : tree) (p : path) : list path :=
  match t with Node f => p :: all_paths_f f p 0 end
with all_paths_f (f : forest) (p : path) (i : nat) : list path :=
  match f with FNil => [] | FCons c r => all_paths_t c (p ++ [i]) ++ all_paths_f r p (S i) end.

Definition onat_eqb (a b : option nat) : bool :=
  match a, b with Some x, Some y => x =? y | None, None => true | _, _ => false end.
Definition obs_okb (T : tree) (o : obs) : bool :=
  forallb (fun w => onat_eqb (o_found o w) (o_expect o w)) (all_paths_t T []).
Definition stale_count (T : tree) (s : st) : nat := length (filter (fun o => negb (obs_okb T o)) (obsl s)).

(* events as integers: kind, then the key / path.  read 1, write 2, solve 3, upd 4 (cano_parent in the second place);
   a path is its length followed by its entries; the slot is -1 (parent) or the child index *)
From Coq Require Import ZArith.
Definition path_Z (p : path) : list Z := Z.of_nat (length p) :: map Z.of_nat p.
Definition slot_Z (s : slot) : Z := match s with SParent => (-1)%Z | SChild i => Z.of_nat i end.
Definition event_Z (e : event) : list Z :=
  match e with
  | EvRead (v, sl) => 1%Z :: slot_Z sl :: path_Z v
  | EvWrite (v, sl) => 2%Z :: slot_Z sl :: path_Z v
  | EvSolve c => 3%Z :: 0%Z :: path_Z c
  | EvUpd c b => 4%Z :: (if b then 1%Z else 0%Z) :: path_Z c
  end.
Definition trace_Z (s : st) : list Z := flat_map event_Z (rev (log s)).

(* a tree from its nested-list shape, for the harness: [of_shape] reads a preorder list of child counts *)
Fixpoint build (fuel : nat) (counts : list nat) : option (tree * list nat) :=
  match fuel with
  | O => None
  | S fuel' =>
      match counts with
      | [] => None
      | n :: rest => match build_kids fuel' n rest with Some (f, r) => Some (Node f, r) | None => None end
      end
  end
with build_kids (fuel : nat) (k : nat) (rest : list nat) : option (forest * list nat) :=
  match fuel with
  | O => None
  | S fuel' =>
      match k with
      | O => Some (FNil, rest)
      | S k' => match build fuel' rest with
                | Some (c, r') => match build_kids fuel' k' r' with
                                  | Some (f, r'') => Some (FCons c f, r'')
                                  | None => None
                                  end
                | None => None
                end
      end
  end.
Definition of_shape (counts : list nat) : tree :=
  match build (2 * length counts + 2) counts with Some (t, _) => t | None => Node FNil end.
