(* C13 -- the chain instance of the heap model and the gauge (QR push) step.

   The contents of a location are a site tensor with its right bond dimension, a scalar (the prefactor cell) or
   anything else (labels, metadata); an object denotes  prefactor x chain amplitude  (Model/Chain.v) as a function
   of the basis configuration.  [gpush] / [gsweep] are one step / a whole schedule of moving the canonical centre
   (MatrixProduct._push_cano + _update_ms, the body of canonicalise / ensure_left_canonical /
   ensure_right_canonical): site i is replaced by the isometric factor, the other factor is absorbed by the
   neighbour.  [dec] is the external decomposition kernel (blockwise QR / RQ of svd_qn) with the contract
   [gdec_factor]: M = U.V on the index range.

   The definitions of the push step and its contract are the schedule-independent algebraic part of property
   C04's model (coq/Model/Cano.v), COPIED here on purpose: C04's files import Gen/CanoSched.v, and nothing of
   C13 may depend on another property's generated file.  No proofs here (see Proofs/HeapGaugeProofs.v). *)
From Coq Require Import List Arith Bool.
Import ListNotations.
From RV Require Import Base.CRing Base.BigSum Model.Chain Gen.EvolveEntry Model.Heap.

Section Gauge.
Variable R : CRing.

Definition gmat := nat -> nat -> R.
Definition gchain := list (nat * T3 R).
(* kernel gi dir rows cols M = (k, U, V) *)
Definition gkernel := nat -> bool -> nat -> nat -> gmat -> nat * gmat * gmat.
Definition gK (x : nat * gmat * gmat) : nat := fst (fst x).
Definition gU (x : nat * gmat * gmat) : gmat := snd (fst x).
Definition gV (x : nat * gmat * gmat) : gmat := snd x.

(* the only part of the kernel's contract the denotation needs: M = U.V *)
Definition gdec_factor (dec : gkernel) : Prop :=
  forall gi dir rows cols M i j, i < rows -> j < cols ->
    M i j = sumn (gK (dec gi dir rows cols M))
                 (fun a => rmul R (gU (dec gi dir rows cols M) i a) (gV (dec gi dir rows cols M) a j)).

(* reshapes (row-major) *)
Definition gmat_r (dp : nat) (t : T3 R) : gmat := fun x j => t (x / dp) (x mod dp) j.
Definition gmat_l (dr : nat) (t : T3 R) : gmat := fun l y => t l (y / dr) (y mod dr).
Definition gsite_u (dp : nat) (U : gmat) : T3 R := fun l p a => U (l * dp + p) a.
Definition gsite_v (dr : nat) (V : gmat) : T3 R := fun a p r => V a (p * dr + r).
Definition gabsorb_v (dr : nat) (V : gmat) (t2 : T3 R) : T3 R :=
  fun a p r => sumn dr (fun j => rmul R (V a j) (t2 j p r)).
Definition gabsorb_u (dm : nat) (t1 : T3 R) (U : gmat) : T3 R :=
  fun l p a => sumn dm (fun j => rmul R (t1 l p j) (U j a)).

Section Sweep.
Variable dec : gkernel.
(* push the centre from site i to i+1; dl = left dimension of the head of ts; gi = global site index *)
Fixpoint gpush_r (gi dl : nat) (ds : list nat) (ts : gchain) (i : nat) : gchain :=
  match i, ds, ts with
  | O, dp :: _, (dr, t) :: (dr2, t2) :: b =>
      let x := dec gi true (dl * dp) dr (gmat_r dp t) in
      (gK x, gsite_u dp (gU x)) :: (dr2, gabsorb_v dr (gV x) t2) :: b
  | S i', _ :: ds', (dr, t) :: ts' => (dr, t) :: gpush_r gi dr ds' ts' i'
  | _, _, _ => ts
  end.
(* push the centre from site i'+1 to i' *)
Fixpoint gpush_l (gi : nat) (ds : list nat) (ts : gchain) (i' : nat) : gchain :=
  match i', ds, ts with
  | O, _ :: dp :: _, (dm, t1) :: (dr, t) :: b =>
      let x := dec gi false dm (dp * dr) (gmat_l dr t) in
      (gK x, gabsorb_u dm t1 (gU x)) :: (dr, gsite_v dr (gV x)) :: b
  | S j, _ :: ds', x :: ts' => x :: gpush_l gi ds' ts' j
  | _, _, _ => ts
  end.
Definition gpush (dir : bool) (ds : list nat) (ts : gchain) (i : nat) : gchain :=
  if dir then gpush_r i 1 ds ts i else match i with O => ts | S i' => gpush_l i ds ts i' end.
(* a sweep: push steps along ANY schedule of (direction, site) pairs -- canonicalise, ensure_left_canonical,
   ensure_right_canonical and the pair of sweeps of _trim_overcomplete_bonds are particular schedules *)
Definition gsweep (ds : list nat) (tr : list (bool * nat)) (ts : gchain) : gchain :=
  fold_left (fun ts di => gpush (fst di) ds ts (snd di)) tr ts.
End Sweep.

Definition gcfg_ok (ds s : list nat) : Prop := Forall2 lt s ds.       (* a basis configuration *)

(* ---- the chain instance of the heap model ---- *)
Inductive cell := CSite (d : nat) (t : T3 R) | CScal (c : R) | COther.
Definition cell_sites (sl : list (field * cell)) : gchain :=
  flat_map (fun fc => match fc with (FSite, CSite d t) => [(d, t)] | _ => [] end) sl.
Definition cell_coeff (sl : list (field * cell)) : R :=
  fold_right (fun fc acc => match fc with (FCoeff, CScal c) => rmul R c acc | _ => acc end) (r1 R) sl.
(* tensors x prefactor: the amplitude of every basis configuration *)
Definition chain_interp (sl : list (field * cell)) : list nat -> R :=
  fun s => rmul R (cell_coeff sl) (amp (cell_sites sl) s).
Definition slots_of (lay : layout) (h : loc -> cell) : list (field * cell) :=
  map (fun fl => (fst fl, h (snd fl))) lay.
(* equality of denotations: on every basis configuration *)
Definition Deq_cfg (ds : list nat) (f g : list nat -> R) : Prop := forall s, gcfg_ok ds s -> f s = g s.
End Gauge.

Arguments gdec_factor {R}.
Arguments gpush {R}.
Arguments gsweep {R}.
Arguments cell_sites {R}.
Arguments cell_coeff {R}.
Arguments chain_interp {R}.
Arguments slots_of {R}.
Arguments Deq_cfg {R}.
