(* Finite sums over [0,n) in a commutative ring. *)
From Coq Require Import Ring ZArith List Lia Arith.
From RV Require Import Base.CRing.

Section BigSum.
Variable R : CRing.
Add Ring RR : (rth R).
Notation "0" := (r0 R).
Notation "1" := (r1 R).
Infix "+" := (radd R).
Infix "*" := (rmul R).
Notation "- x" := (ropp R x).

Fixpoint sumn (n : nat) (f : nat -> R) : R :=
  match n with O => 0 | S k => sumn k f + f k end.

Lemma sumn_ext n f g : (forall i, (i < n)%nat -> f i = g i) -> sumn n f = sumn n g.
Proof.
  induction n as [|n IH]; cbn [sumn]; intros H; [reflexivity|].
  rewrite IH by (intros; apply H; lia). rewrite H by lia. reflexivity.
Qed.

Lemma sumn_0 n f : (forall i, (i < n)%nat -> f i = 0) -> sumn n f = 0.
Proof.
  induction n as [|n IH]; cbn [sumn]; intros H; [reflexivity|].
  rewrite IH by (intros; apply H; lia). rewrite H by lia. ring.
Qed.

Lemma sumn_split n m f : sumn (n + m) f = sumn n f + sumn m (fun i => f (n + i)%nat).
Proof.
  induction m as [|m IH]; cbn [sumn].
  - rewrite Nat.add_0_r. ring.
  - replace (n + S m)%nat with (S (n + m)) by lia. cbn [sumn]. rewrite IH. ring.
Qed.

Lemma sumn_add n f g : sumn n (fun i => f i + g i) = sumn n f + sumn n g.
Proof. induction n as [|n IH]; cbn [sumn]; [ring|]. rewrite IH. ring. Qed.

Lemma sumn_scale_l n c f : sumn n (fun i => c * f i) = c * sumn n f.
Proof. induction n as [|n IH]; cbn [sumn]; [ring|]. rewrite IH. ring. Qed.

Lemma sumn_scale_r n c f : sumn n (fun i => f i * c) = sumn n f * c.
Proof. induction n as [|n IH]; cbn [sumn]; [ring|]. rewrite IH. ring. Qed.

Lemma sumn_opp n f : sumn n (fun i => - f i) = - sumn n f.
Proof. induction n as [|n IH]; cbn [sumn]; [ring|]. rewrite IH. ring. Qed.

Lemma sumn_exchange n m (f : nat -> nat -> R) :
  sumn n (fun i => sumn m (fun j => f i j)) = sumn m (fun j => sumn n (fun i => f i j)).
Proof.
  induction n as [|n IH]; cbn [sumn].
  - symmetry. apply sumn_0. reflexivity.
  - rewrite IH. rewrite <- sumn_add. reflexivity.
Qed.

(* delta elimination: sum_i [i = k] * f i = f k  for k < n *)
Lemma sumn_delta n k f : (k < n)%nat ->
  sumn n (fun i => if Nat.eqb i k then f i else 0) = f k.
Proof.
  induction n as [|n IH]; intros Hk; [lia|]. cbn [sumn].
  destruct (Nat.eqb_spec n k) as [->|Hne].
  - rewrite sumn_0. ring. intros i Hi. destruct (Nat.eqb_spec i k); [lia|reflexivity].
  - rewrite IH by lia. ring.
Qed.

(* flattening a double sum over a product range, row-major as NumPy reshape does: index i*m + j *)
Lemma sumn_prod n m f :
  sumn (n * m) f = sumn n (fun i => sumn m (fun j => f (i * m + j)%nat)).
Proof.
  induction n as [|n IH]; cbn [sumn Nat.mul]; [reflexivity|].
  replace (m + n * m)%nat with (n * m + m)%nat by lia.
  rewrite sumn_split, IH. reflexivity.
Qed.

Lemma sumn_cj n f : rcj R (sumn n f) = sumn n (fun i => rcj R (f i)).
Proof. induction n as [|n IH]; cbn [sumn]; [apply rcj_0|]. rewrite rcj_add, IH. reflexivity. Qed.

End BigSum.
Arguments sumn {R} n f.
