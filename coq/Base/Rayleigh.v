(* Ordered-ring facts behind the Rayleigh-Ritz (variational) bound, over an ABSTRACT strict ordered ring
   (Coq.micromega.OrderedRing.SOR: setoid equality, ring laws, total strict order compatible with addition and multiplication).
   Nothing here mentions the real numbers; Z, Q and every ordered field are instances (Zsor, Qsor).
   "Rayleigh quotient  e = <c,Ac>/<c,c>"  is used in the division-free form  e * <c,c> == <c,Ac>  with
   0 < <c,c>;  [rayleigh_div] relates it to a division operator when the ring has one.               *)
From Coq Require Import Setoid Morphisms Ring.
From Coq.micromega Require Import OrderedRing.

Section OrderedRingFacts.
Variable R : Type.
Variable (rO rI : R) (rplus rtimes rminus : R -> R -> R) (ropp : R -> R).
Variable req rle rlt : R -> R -> Prop.
Variable sor : SOR rO rI rplus rtimes rminus ropp req rle rlt.

Notation "0" := rO.
Notation "1" := rI.
Notation "x + y" := (rplus x y).
Notation "x * y " := (rtimes x y).
Notation "x - y " := (rminus x y).
Notation "- x" := (ropp x).
Notation "x == y" := (req x y) (at level 70, no associativity).
Notation "x ~= y" := (~ req x y) (at level 70, no associativity).
Notation "x <= y" := (rle x y).
Notation "x < y" := (rlt x y).

Add Relation R req
  reflexivity proved by (@Equivalence_Reflexive _ _ (SORsetoid sor))
  symmetry proved by (@Equivalence_Symmetric _ _ (SORsetoid sor))
  transitivity proved by (@Equivalence_Transitive _ _ (SORsetoid sor))
as ray_setoid.
Add Morphism rplus with signature req ==> req ==> req as ray_plus_morph. Proof. exact (SORplus_wd sor). Qed.
Add Morphism rtimes with signature req ==> req ==> req as ray_times_morph. Proof. exact (SORtimes_wd sor). Qed.
Add Morphism ropp with signature req ==> req as ray_opp_morph. Proof. exact (SORopp_wd sor). Qed.
Add Morphism rle with signature req ==> req ==> iff as ray_le_morph. Proof. exact (SORle_wd sor). Qed.
Add Morphism rlt with signature req ==> req ==> iff as ray_lt_morph. Proof. exact (SORlt_wd sor). Qed.
Add Ring RayRing : (SORrt sor).
Add Morphism rminus with signature req ==> req ==> req as ray_minus_morph.
Proof. exact (rminus_morph sor). Qed.

(* a * b <= c * b  with  0 < b  gives  a <= c *)
Lemma sor_mul_le_cancel_r a c b : 0 < b -> a * b <= c * b -> a <= c.
Proof.
  intros Hb H. destruct (Rle_gt_cases sor a c) as [Hle|Hgt]; [exact Hle|].
  exfalso. apply (Rlt_lt_minus sor) in Hgt.
  pose proof (Rtimes_pos_pos sor _ _ Hgt Hb) as Hp.
  apply (Rle_ngt sor) in H. apply H. apply (Rlt_lt_minus sor).
  assert (E : a * b - c * b == (a - c) * b) by ring. rewrite E. exact Hp.
Qed.

Lemma sor_mul_le_mono_nonneg_r a c b : a <= c -> 0 <= b -> a * b <= c * b.
Proof.
  intros Hac Hb. apply (Rle_le_minus sor). apply (Rle_le_minus sor) in Hac.
  assert (E : c * b - a * b == (c - a) * b) by ring. rewrite E.
  apply (Rtimes_nonneg_nonneg sor); assumption.
Qed.

Lemma sor_sq_pos x : x ~= 0 -> 0 < x * x.
Proof.
  intros Hx. destruct (Rlt_trichotomy sor x 0) as [H|[H|H]]; [|contradiction|].
  - apply (Rtimes_neg_neg sor); exact H.
  - apply (Rtimes_pos_pos sor); exact H.
Qed.

Lemma sor_sq_sum_pos x y : x ~= 0 \/ y ~= 0 -> 0 < x * x + y * y.
Proof.
  intros [H|H].
  - apply (Rplus_pos_nonneg sor); [apply sor_sq_pos; exact H|apply (Rtimes_square_nonneg sor)].
  - apply (Rplus_nonneg_pos sor); [apply (Rtimes_square_nonneg sor)|apply sor_sq_pos; exact H].
Qed.

(* the division-free Rayleigh relation and its relation to a division operator, when there is one *)
Definition is_rayleigh (e nrm2 quad : R) : Prop := 0 < nrm2 /\ e * nrm2 == quad.

Lemma rayleigh_div (rdiv : R -> R -> R) :
  (forall a b, b ~= 0 -> rdiv a b * b == a) ->
  forall nrm2 quad, 0 < nrm2 -> is_rayleigh (rdiv quad nrm2) nrm2 quad.
Proof.
  intros Hd nrm2 quad Hn. split; [exact Hn|]. apply Hd. intros E. rewrite E in Hn.
  apply (Rlt_neq sor) in Hn. apply Hn. reflexivity.
Qed.

End OrderedRingFacts.
