(* Commutative rings with an involution (conjugation), bundled, with executable instances.
   Usage in a client file:
     Section S.  Variable R : CRing.  Add Ring RR : (rth R).
     Notation "x + y" := (radd R x y). ...                                                    *)
From Coq Require Import Ring ZArith Lia.

Record CRing := {
  car :> Type;
  r0 : car; r1 : car;
  radd : car -> car -> car; rmul : car -> car -> car; rsub : car -> car -> car; ropp : car -> car;
  rcj : car -> car;                                   (* conjugation; identity on real rings *)
  rth : ring_theory r0 r1 radd rmul rsub ropp (@eq car);
  rcj_add : forall x y, rcj (radd x y) = radd (rcj x) (rcj y);
  rcj_mul : forall x y, rcj (rmul x y) = rmul (rcj x) (rcj y);
  rcj_opp : forall x, rcj (ropp x) = ropp (rcj x);
  rcj_invol : forall x, rcj (rcj x) = x;
  rcj_0 : rcj r0 = r0;
  rcj_1 : rcj r1 = r1
}.

(* ---- instance: Z with trivial conjugation ---- *)
Definition ZRing : CRing.
Proof.
  refine {| car := Z; r0 := 0%Z; r1 := 1%Z; radd := Z.add; rmul := Z.mul; rsub := Z.sub; ropp := Z.opp;
            rcj := fun x => x; rth := Zth |}; intros; reflexivity.
Defined.

(* ---- instance: Gaussian integers ---- *)
Definition gi := (Z * Z)%type.
Definition gi_add (x y : gi) : gi := (fst x + fst y, snd x + snd y)%Z.
Definition gi_mul (x y : gi) : gi := (fst x * fst y - snd x * snd y, fst x * snd y + snd x * fst y)%Z.
Definition gi_opp (x : gi) : gi := (- fst x, - snd x)%Z.
Definition gi_sub (x y : gi) : gi := (fst x - fst y, snd x - snd y)%Z.
Definition gi_cj (x : gi) : gi := (fst x, - snd x)%Z.

Lemma gi_th : ring_theory (0, 0)%Z (1, 0)%Z gi_add gi_mul gi_sub gi_opp (@eq gi).
Proof.
  constructor; intros; repeat match goal with x : (_ * _)%type |- _ => destruct x end;
    unfold gi_add, gi_mul, gi_sub, gi_opp; cbn [fst snd]; apply pair_equal_spec; split; ring.
Qed.

Definition GiRing : CRing.
Proof.
  refine {| car := gi; r0 := (0, 0)%Z; r1 := (1, 0)%Z; radd := gi_add; rmul := gi_mul; rsub := gi_sub;
            ropp := gi_opp; rcj := gi_cj; rth := gi_th |};
  intros; repeat match goal with x : gi |- _ => destruct x | x : (_ * _)%type |- _ => destruct x end;
    unfold gi_add, gi_mul, gi_sub, gi_opp, gi_cj; cbn [fst snd]; try (apply pair_equal_spec; split; ring); reflexivity.
Defined.
