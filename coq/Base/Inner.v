(* Abstract inner-product space over an abstract ordered commutative ring (every ordered field, e.g. the
   reals, is one; no division is needed by the theorems that use this file, so none is assumed).

   Nothing here is axiomatised: the scalars and the vectors are the carriers of two records whose other
   fields are the operations and their laws.  The lemmas below and the theorems of Proofs/TruncProofs.v
   are proved inside Sections over Variables of these record types, i.e. for every structure satisfying
   the laws; a complex Hilbert space is an instance through  inner u v := Re <u|v>  (an orthogonal projector
   of the complex space is self-adjoint for the real part as well).  An executable instance over Z^3 is
   given in Props/C05.v. *)
From Coq Require Import Ring List.
Import ListNotations.

Record OrdRing := {
  K :> Type;
  k0 : K; k1 : K;
  kadd : K -> K -> K; kmul : K -> K -> K; ksub : K -> K -> K; kopp : K -> K;
  kle : K -> K -> Prop;
  k_ring : ring_theory k0 k1 kadd kmul ksub kopp (@eq K);
  kle_refl : forall a, kle a a;
  kle_trans : forall a b c, kle a b -> kle b c -> kle a c;
  kle_antisym : forall a b, kle a b -> kle b a -> a = b;
  kle_total : forall a b, kle a b \/ kle b a;
  kle_add : forall a b c, kle a b -> kle (kadd a c) (kadd b c);
  kle_mul : forall a b, kle k0 a -> kle k0 b -> kle k0 (kmul a b)
}.

Record InnerSpace (R : OrdRing) := {
  V :> Type;
  v0 : V;
  vadd : V -> V -> V;
  vsub : V -> V -> V;
  inner : V -> V -> R;
  inner_sym : forall u v, inner u v = inner v u;
  inner_add_l : forall u v w, inner (vadd u v) w = kadd R (inner u w) (inner v w);
  inner_sub_l : forall u v w, inner (vsub u v) w = ksub R (inner u w) (inner v w);
  inner_zero_l : forall w, inner v0 w = k0 R;
  inner_pos : forall v, kle R (k0 R) (inner v v)
}.

Arguments v0 {R} _.
Arguments vadd {R} _ _ _.
Arguments vsub {R} _ _ _.
Arguments inner {R} _ _ _.

Section Defs.
  Variable R : OrdRing.
  Variable E : InnerSpace R.

  Definition normsq (v : E) : R := inner E v v.
  Definition ksum (l : list R) : R := fold_right (kadd R) (k0 R) l.
  Definition vsum (l : list E) : E := fold_right (vadd E) (v0 E) l.

  (* self-adjoint w.r.t. the inner product *)
  Definition self_adjoint (P : E -> E) : Prop := forall u v, inner E (P u) v = inner E u (P v).
  Definition idempotent (P : E -> E) : Prop := forall u, P (P u) = P u.
  (* orthogonal projector: idempotent and self-adjoint (additivity is not needed by any theorem here) *)
  Definition orth_projector (P : E -> E) : Prop := idempotent P /\ self_adjoint P.

  Definition additive (P : E -> E) : Prop := forall u v, P (vsub E u v) = vsub E (P u) (P v).

  (* KY FAN'S MAXIMUM PRINCIPLE at one bond (K. Fan, Proc. Nat. Acad. Sci. USA 35 (1949) 652-655; R. Bhatia, Matrix
     Analysis, Springer 1997, Problem I.6.15 / Exercise II.1.13; Horn & Johnson, Matrix Analysis, 2nd ed.,
     Corollary 4.3.39 applied to A A^* and A^* A):
        sum_{i<=m} sigma_i(A)^2  =  max { |X A|^2 : X an orthogonal projector of rank <= m on the left space }
                                 =  max { |A Q|^2 : Q an orthogonal projector of rank <= m on the right space } .
     Abstractly: [side] is the class of rank-<=m orthogonal projectors acting on ONE tensor factor of the bond
     (left or right), [right] the right-acting ones, [top v] the sum of the m largest squared Schmidt values of v.
     The principle says: no member captures more than top, and some right-acting member attains it.
     It is used ONLY as an explicit hypothesis (it is not proved in this development). *)
  Definition ky_fan_principle (side right : (E -> E) -> Prop) (top : E -> R) : Prop :=
    (forall X v, side X -> kle R (normsq (X v)) (top v)) /\
    (forall v, exists Q, right Q /\ normsq (Q v) = top v).
  (* what the classes are (no spectral content): right-acting members are members; members are additive
     orthogonal projectors *)
  Definition projector_class (side right : (E -> E) -> Prop) : Prop :=
    (forall X, right X -> side X) /\ (forall X, side X -> orth_projector X /\ additive X).

  (* pairwise orthogonality of a list of vectors *)
  Inductive pairwise_orth : list E -> Prop :=
  | po_nil : pairwise_orth []
  | po_cons : forall e l, Forall (fun x => inner E e x = k0 R) l -> pairwise_orth l -> pairwise_orth (e :: l).

  (* sum over k < n *)
  Fixpoint ksum_upto (f : nat -> R) (n : nat) : R :=
    match n with O => k0 R | S m => kadd R (ksum_upto f m) (f m) end.
End Defs.

Arguments normsq {R} _ _.
Arguments ksum {R} _.
Arguments vsum {R} _ _.
Arguments self_adjoint {R} _ _.
Arguments idempotent {R} _ _.
Arguments orth_projector {R} _ _.
Arguments pairwise_orth {R} _ _.
Arguments additive {R} _ _.
Arguments ky_fan_principle {R} _ _ _ _.
Arguments projector_class {R} _ _ _.
Arguments ksum_upto {R} _ _.
